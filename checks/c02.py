"""C02 every input yields a complete rendering.
A (E3): complete reachability over LALR stack configurations on the repository's own parser tables.
B: every configuration witness and every transition replayed against the real Parse() (stack equality).
C (E1): realisable documents through the public API, 7 writers x {MMD, compat}."""
import os, json, subprocess, time
from vp import build, core

LD = "-Wl,--wrap=exit -Wl,--wrap=time -Wl,--wrap=Parse"

def exes():
    return {os.path.basename(p): p for p in (
        build.link("plain", "c02", ["kernel.c", "c02.c"], LD),
        build.link("plain", "c02_lalr", ["c02_lalr.c"]))}

def prepare():
    exes()

def run_lalr(rep, exe):
    t = time.time()
    r = subprocess.run([exe], capture_output=True, env=core.driver_env(), timeout=600)
    recs = []
    for ln in r.stdout.decode(errors="replace").splitlines():
        try: recs.append(json.loads(ln))
        except ValueError: pass
    if r.returncode != 0 and not any(x.get("t") == "internal" for x in recs):
        rep.internal_errors.append("c02_lalr exited %d: %s" % (r.returncode, r.stderr.decode(errors="replace")[-300:]))
    lalr = conf = None
    for x in recs:
        t_ = x.get("t")
        if t_ == "internal":
            # a terminal without a representative line = the grammar changed: that is a finding about the model binding, reported loudly
            rep.add_violation("lalr-model-stale", x["what"], x)
        elif t_ == "lalr": lalr = x
        elif t_ == "conform": conf = x
        elif t_ == "lalr_error":
            sig = "lalr:%s:%s" % (x["kind"], x.get("terminal", "$"))
            rep.add_violation(sig, "block parser: %s after line kinds %s" % (x["kind"], " ".join(x["path"])), x,
                              replay=dict(kind="lalr", path=x["path"]))
        elif t_ == "conformance":
            rep.add_violation("lalr-conformance", "real Parse() disagrees with the table simulation: %s; path %s" % (x["why"], " ".join(x["path"])), x,
                              replay=dict(kind="lalr", path=x["path"]))
        elif t_ == "sample":
            rep.add_sample(dict(level="lalr", config=x["config"], depth=x["depth"], witness=x["witness"]))
    if lalr:
        rep.states, rep.transitions = lalr["configs"], lalr["transitions"]
        rep.traces = conf["traces"] if conf else 0
        rep.extra["lalr"] = lalr
        rep.extra["conformance"] = conf or "skipped (automaton errors reported first)"
        rep.add_level("lalr-automaton", lalr["transitions"], lalr["transitions"], True, time.time() - t, lalr["configs"],
                      "complete fixpoint over LALR stack configurations x %d real line kinds + EOF; %d traces replayed on the real Parse()" % (lalr["terminals"], rep.traces))
    else:
        rep.states, rep.transitions, rep.traces = 1, 1, 0

def run(tier):
    rep = core.Report("C02", tier, "model_checking")
    rep.rule = ("A: breadth-first fixpoint over parser stack configurations (state = stack of LALR state numbers), invariant: no error action, EOF accepts, no overflow; "
                "B: every witness/transition replayed on the real parser with stack comparison; C: all documents over the line/inline/macro alphabets up to the level's length "
                "x writers x modes through mmd_string_convert; distinct = distinct output hashes")
    rep.assumptions = ["the line classifier produces only the 36 real line kinds (asserted at run time in layer C by wrapping Parse)",
                       "parser.c compiled without NDEBUG so that %syntax_error reports"]
    ex = exes()
    run_lalr(rep, ex["c02_lalr-plain"])
    core.run_driver(rep, ex["c02-plain"], tier, "plain", hang=10)
    core.reclassify_self_referential_notes(rep)
    core.confirm_violations(rep, ex)
    return rep.finish()

def replay(rec):
    ex = exes()
    rp = rec.get("replay") or {}
    if rp.get("kind") == "driver":
        sigs, out, err = core.replay_driver(ex[rp["exe"]], rp["arg"])
        print(out); print(err); print("replayed signatures:", sigs)
        return 1 if sigs else 0
    r = subprocess.run([ex["c02_lalr-plain"]], capture_output=True, env=core.driver_env())
    bad = [l for l in r.stdout.decode().splitlines() if '"lalr_error"' in l or '"conformance"' in l or '"internal"' in l]
    print("\n".join(bad))
    return 1 if bad else 0

META = dict(
    level="model_checking", engine="E3",
    technique="explicit-state reachability over LALR parser configurations (complete), conformance replay of every trace on the real parser, plus bounded-exhaustive document enumeration",
    text=("The block parser's reachable stack configurations are finite (left-recursive grammar); all of them are enumerated from the repository's own tables and "
          "checked for error actions, EOF acceptance and overflow - an unbounded-length result about every ordering of line kinds. Every state's witness and every "
          "transition is replayed on the real Parse() and the real state stack compared. Writers are covered by exhaustive document enumeration over one or two "
          "representatives per token/line kind in 8 contexts, 7 writers, both modes."),
    note="trusted: the table simulator (60 lines, bound to the code by the conformance replay); small-scope hypothesis for writer coverage",
)
