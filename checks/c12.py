"""C12 CriticMarkup accept/reject = the edited text (E1 over edit-script ASTs, reference = recursive definition)."""
import os, itertools, subprocess, tempfile
from vp import build, core, mmd, pmap

TEXTS = [b"a", b"", b"b c", b"\n\n", b"\\{x\\}", b"\xc3\xa9", b"z\\{"]      # incl. a payload that ends in an escaped brace right before the closer
MARKS = [b"{++", b"++}", b"{--", b"--}", b"{>>", b"<<}", b"{~~", b"~>", b"~~}", b"{==", b"==}"]

def gen(depth):
    """(source, accepted, rejected) for every edit script of nesting depth <= depth"""
    for t in TEXTS: yield (t, t, t)
    if depth == 0: return
    inner = list(gen(depth - 1))
    for (s, a, r) in inner:
        yield (b"{++" + s + b"++}", a, b"")
        yield (b"{--" + s + b"--}", b"", r)
        yield (b"{==" + s + b"==}", a, r)
    for t in TEXTS:
        yield (b"{>>" + t + b"<<}", b"", b"")
        for u in TEXTS:
            yield (b"{~~" + t + b"~>" + u + b"~~}", u, t)

def gen_sub_nested():
    """substitutions one half of which contains another complete mark (the quantifier's 'nestings of the five mark types'): the mark inside the kept half is resolved like any other, the other half disappears"""
    for (s, a, r) in gen(1):
        if not s.startswith(b"{"): continue
        for x, y in ((b"", b""), (b"p", b"q"), (b"p ", b"\n\nq")):
            yield (b"{~~" + x + s + y + b"~>new~~}", b"new", x + r + y)
            yield (b"{~~old~>" + x + s + y + b"~~}", x + a + y, b"old")

# a backslash before the opening brace makes the opener plain text (and leaves its closer unmatched): top-level items only, identity under both operations
ESCAPED = [(x, x, x) for x in (b"\\{++e++}", b"\\{--e--}", b"\\{~~e~>f~~}", b"\\{==e==}", b"\\{>>e<<}")]
ITEMS = None
def items():
    global ITEMS
    if ITEMS is None: ITEMS = list(gen(2)) + ESCAPED
    return ITEMS
ITEMS1 = None
def items1():
    global ITEMS1
    if ITEMS1 is None: ITEMS1 = list(gen(1)) + ESCAPED
    return ITEMS1

def ambiguous(parts):
    """adjacent items whose junction creates a marker that is not in either item (e.g. '{+' + '+}'): generator hygiene"""
    s = b"".join(p[0] for p in parts)
    # count markers in the concatenation vs the sum over parts
    def count(x): return sum(x.count(m) for m in MARKS)
    return count(s) != sum(count(p[0]) for p in parts)

def decode(idx, L, n):
    out = []
    for _ in range(L):
        out.append(idx % n); idx //= n
    return out[::-1]

def make_seq_case(its, L):
    n = len(its)
    def case(idx):
        parts = [its[k] for k in decode(idx, L, n)]
        if ambiguous(parts): return (None, [], dict(skipped=1))
        src = b"".join(p[0] for p in parts); acc = b"".join(p[1] for p in parts); rej = b"".join(p[2] for p in parts)
        v = []
        a = mmd.critic(src); r = mmd.critic(src, True)
        if a != acc: v.append(("critic:accept-mismatch", "accept(%r) = %r, expected %r" % (src, a, acc), dict(src=src.decode("latin-1"), op="accept")))
        if r != rej: v.append(("critic:reject-mismatch", "reject(%r) = %r, expected %r" % (src, r, rej), dict(src=src.decode("latin-1"), op="reject")))
        if a == acc and mmd.critic(a) != a: v.append(("critic:accept-not-idempotent", "accept(accept(%r)) != accept" % src, dict(src=src.decode("latin-1"))))
        if r == rej and mmd.critic(r, True) != r: v.append(("critic:reject-not-idempotent", "reject(reject(%r)) != reject" % src, dict(src=src.decode("latin-1"))))
        # every item-aligned sub-range
        if L > 1 and not v:
            offs = [0]
            for p in parts: offs.append(offs[-1] + len(p[0]))
            for i in range(L):
                for j in range(i + 1, L + 1):
                    if i == 0 and j == L: continue
                    for op, k, name in ((False, 1, "accept_range"), (True, 2, "reject_range")):
                        exp = b"".join(p[0] for p in parts[:i]) + b"".join(p[k] for p in parts[i:j]) + b"".join(p[0] for p in parts[j:])
                        got = mmd.critic(src, op, offs[i], offs[j] - offs[i])
                        if got != exp:
                            v.append(("critic:%s-mismatch" % name, "%s(%r, %d, %d) = %r, expected %r" % (name, src, offs[i], offs[j] - offs[i], got, exp),
                                      dict(src=src.decode("latin-1"), op=name, start=offs[i], len=offs[j] - offs[i])))
        return (pmap.h64(src + b"|" + (a or b"") + b"|" + (r or b"")), v, dict(judged=1))
    return case

def unmatched_docs():
    """every marker alone (with text around) and every marker inside every well-formed pair"""
    docs = []
    for m in MARKS:
        docs.append(b"a " + m + b" b")
        docs.append(m)
        docs.append(b"x" + m + b"y\n\nz")
    pairs = [(b"{++", b"++}", 1, 0), (b"{--", b"--}", 0, 1), (b"{==", b"==}", 1, 1)]
    for (o, c, ka, kr) in pairs:
        for m in MARKS:
            if m in (o, c): continue
            inner = b"p " + m + b" q"
            docs.append((b"s " + o + inner + c + b" t", b"s " + (inner if ka else b"") + b" t", b"s " + (inner if kr else b"") + b" t"))
    return docs

def unmatched_case(docs):
    def case(idx):
        d = docs[idx]; v = []
        if isinstance(d, tuple): src, acc, rej = d
        else: src, acc, rej = d, d, d
        a = mmd.critic(src); r = mmd.critic(src, True)
        stray = next((m for m in MARKS if m in (src if not isinstance(d, tuple) else src[5:-5])), b"?").decode()
        if a != acc: v.append(("critic:unmatched-marker-changed:accept:" + stray, "accept(%r) = %r, expected %r" % (src, a, acc), dict(src=src.decode("latin-1"), op="accept")))
        if r != rej: v.append(("critic:unmatched-marker-changed:reject:" + stray, "reject(%r) = %r, expected %r" % (src, r, rej), dict(src=src.decode("latin-1"), op="reject")))
        return (pmap.h64(src + (a or b"")), v)
    return case

FMT3 = [("html", 0), ("latex", 2), ("fodt", 5)]
def render_case(its):
    """what the CLI does for -a/-r (text-level accept/reject, then convert with the flag) must equal rendering the edited text"""
    n = len(its)
    def case(idx):
        fi = idx % 3; idx //= 3
        parts = [its[k] for k in decode(idx, 2, n)]
        if ambiguous(parts) or any(b"\n\n" in p[0] for p in parts): return (None, [], dict(skipped=1))
        src = b"pre " + parts[0][0] + b" mid " + parts[1][0] + b" post\n"
        v = []; fname, f = FMT3[fi]
        for op, k, flag, nm in ((False, 1, mmd.EXT["CRITIC_ACCEPT"], "accept"), (True, 2, mmd.EXT["CRITIC_REJECT"], "reject")):
            ref = b"pre " + parts[0][k] + b" mid " + parts[1][k] + b" post\n"
            got = mmd.convert(mmd.critic(src, op), mmd.EXT_DEFAULT | flag, f)
            exp = mmd.convert(ref, mmd.EXT_DEFAULT, f)
            if got != exp:
                v.append(("critic:render-%s-differs:%s" % (nm, fname), "rendering after %s of %r differs from rendering %r" % (nm, src, ref), dict(src=src.decode("latin-1"), op=nm, format=fname)))
        return (pmap.h64(src + bytes([fi])), v, dict(judged=1))
    return case

def cli_leg(rep, tier):
    """the real command-line tool: -a / -r on a sub-grid"""
    import time
    t0 = time.time()
    cli = build.build_cli()
    its = items1()
    pairs = [(a, b) for a in its for b in its][::(11 if tier == "quick" else 3)]
    jobs = []
    for a, b in pairs:
        if ambiguous([a, b]) or b"\n\n" in a[0] + b[0]: continue
        for fname, _ in FMT3:
            jobs.append((a, b, fname))
    from concurrent.futures import ThreadPoolExecutor
    def one(j):
        a, b, fname = j
        src = b"pre " + a[0] + b" mid " + b[0] + b" post\n"; out = []
        for flag, k, nm in (("-a", 1, "accept"), ("-r", 2, "reject")):
            ref = b"pre " + a[k] + b" mid " + b[k] + b" post\n"
            o1 = subprocess.run([cli, flag, "-t", fname], input=src, capture_output=True).stdout
            o2 = subprocess.run([cli, "-t", fname], input=ref, capture_output=True).stdout
            if o1 != o2: out.append(("critic:cli-%s-differs:%s" % (nm, fname), "multimarkdown %s -t %s on %r differs from rendering %r" % (flag, fname, src, ref), dict(src=src.decode("latin-1"), flag=flag, format=fname)))
        return out
    with ThreadPoolExecutor(16) as ex:
        for vs in ex.map(one, jobs):
            for sig, det, case in vs: rep.add_violation(sig, det, case, replay=dict(kind="cli"))
    rep.add_level("cli-accept-reject", len(jobs) * 2, len(jobs) * 2, True, time.time() - t0, len(jobs), "real CLI -a/-r vs rendering of the reference text, html/latex/fodt, sub-grid of two-mark documents")

def run(tier):
    rep = core.Report("C12", tier, "exploration")
    rep.rule = ("edit scripts: item := text | ADD(items) | DEL(items) | HI(items) | SUB(text,text) | COM(text), nesting depth <= 2, texts from {a, empty, 'b c', paragraph break, escaped braces, multi-byte}; "
                "all sequences of top-level items up to the level's length; reference = the recursive definition; plus every item-aligned sub-range, unmatched-marker documents, "
                "and rendering after accept/reject vs rendering of the reference text; distinct = distinct (source, accepted, rejected) triples; junctions that create a marker not present in either item are skipped and counted")
    mmd.so_path()
    dl = core.deadline_s(tier)
    its2, its1 = items(), items1()
    levels = [("items-depth2-len1", its2, 1), ("items-depth1-len2", its1, 2)]
    levels.append(("items-depth2-len2", its2, 2))
    if tier != "quick": levels += [("items-depth1-len3", its1, 3), ("items-depth2-len3", its2, 3)]
    for name, its, L in levels:
        n = len(its) ** L
        res = pmap.pmap(n, make_seq_case(its, L), deadline_s=dl * 0.8)
        pmap.fold(rep, name, n, res, "%d edit-script items, all sequences of length %d, accept/reject/idempotence/sub-ranges" % (len(its), L))
        if name == "items-depth2-len1":
            for k in (0, 60, 120, 200): rep.add_sample(dict(src=its[k][0].decode("latin-1"), accepted=its[k][1].decode("latin-1"), rejected=its[k][2].decode("latin-1")))
    nested = [it for it in gen_sub_nested() if not ambiguous([it])]
    ctx = [(b"", b"", b""), (b"x ", b"x ", b"x "), (b"{++k++}", b"k", b""), (b"{--k--} ", b" ", b"k ")]
    seqs = [(c, it, d) for it in nested for c in ctx for d in ctx]
    def nested_case(idx):
        parts = list(seqs[idx])
        if ambiguous(parts): return (None, [], dict(skipped=1))
        src = b"".join(p[0] for p in parts); acc = b"".join(p[1] for p in parts); rej = b"".join(p[2] for p in parts); v = []
        a = mmd.critic(src); r = mmd.critic(src, True)
        if a != acc: v.append(("critic:accept-mismatch:mark-inside-substitution", "accept(%r) = %r, expected %r" % (src, a, acc), dict(src=src.decode("latin-1"), op="accept")))
        if r != rej: v.append(("critic:reject-mismatch:mark-inside-substitution", "reject(%r) = %r, expected %r" % (src, r, rej), dict(src=src.decode("latin-1"), op="reject")))
        return (pmap.h64(src), v, dict(judged=1))
    res = pmap.pmap(len(seqs), nested_case, deadline_s=dl * 0.8)
    pmap.fold(rep, "marks-inside-substitution-halves", len(seqs), res, "%d substitutions whose old or new half contains one complete mark (every depth-1 item, bare or between words, also across a paragraph break) x 4 left x 4 right neighbours" % len(nested))
    ud = unmatched_docs()
    res = pmap.pmap(len(ud), unmatched_case(ud))
    pmap.fold(rep, "unmatched-markers", len(ud), res, "every marker alone and every marker inside every well-formed pair: must be left untouched")
    n = len(its1) ** 2 * 3
    res = pmap.pmap(n, render_case(its1), deadline_s=dl * 0.9)
    pmap.fold(rep, "render-after-accept-reject", n, res, "text-level accept/reject + convert with the flag (what the CLI does) vs rendering of the reference text: html, latex, fodt")
    cli_leg(rep, tier)
    return rep.finish()

def replay(rec):
    c = rec["cases"][0]; src = c["src"].encode("latin-1")
    print("source  :", src); print("accept  :", mmd.critic(src)); print("reject  :", mmd.critic(src, True))
    return 1

def prepare():
    mmd.so_path(); build.build_cli()

META = dict(level="exploration", engine="E5",
    technique="bounded-exhaustive enumeration of CriticMarkup edit-script ASTs, compared byte for byte with the recursive reference definition; sub-ranges, idempotence, unmatched markers and rendering equivalence on every case",
    text="Every edit script up to nesting depth 2 and the stated sequence length is accepted and rejected by the real library (whole string and every item-aligned sub-range) and compared with the 10-line reference; the CLI's -a/-r rendering is compared with the rendering of the reference text in-process for all two-mark documents and through the real binary on a sub-grid.",
    note="trusted: the recursive reference definition; generator skips junctions that accidentally form a new marker")
