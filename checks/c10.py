"""C10 generated anchors and the references to them always match (E1 over a notes/headings alphabet x option sets)."""
import itertools, re
from vp import core, mmd, pmap

F = [b"text[^a] ", b"more[^b] ", b"again[^a] ", b"inl[^inline *note*] ", b"cite[#c1] ", b"loc[p. 3][#c1] ", b"[Not cited][#c2] ", b"cite2[#c2] ", b"gl[?term] ", b"gl2[?term] ",
     b"ab[>HTML] ", b"see [Head One][] ", b"see [Second][] ", b"see [lbl][] ", b"see [Third] ", b"tab [Cap One][] ", b"tab2 [Cap Two][] ", b"tab3 [tlab][] ", b"tab4 [Cap Three][] [tl3][] ", b"punct [What's this? -- \xc3\xa9t\xc3\xa9!][] ", b"plain "]
DEFS = (b"\n\n[^a]: note a\n\n[^b]: note b with[^a] nested\n\n[^unused]: never\n\n[#c1]: Cite one\n\n[#c2]: Cite two\n\n[?term]: a definition\n\n[>HTML]: Hyper Text\n\n"
        b"# Head One #\n\nSecond\n------\n\n### Third [lbl] ###\n\n# Head One #\n\n## What's this? -- \xc3\xa9t\xc3\xa9! ##\n\nTrailing-\n=========\n\n| a | b |\n|---|---|\n| c | d |\n[Cap One]\n\n| e |\n|---|\n| f |\n[Cap Two] [tlab]\n\n[Cap Three][tl3]\n| g |\n|---|\n| h |\n")
WRAP = [("para", b"%s"), ("list", b"* %s\n* x"), ("quote", b"> %s"), ("toc", b"{{TOC}}\n\n%s"), ("toc-range", b"{{TOC:2-3}}\n\n%s"), ("toc-heading-with-notes", b"{{TOC}}\n\n# Intro[^a] cite[#c1] term[?term] #\n\n%s"), ("nested", b"* a\n\n    * %s\n")]
E = mmd.EXT
OPTS = [("default", mmd.EXT_DEFAULT, b""), ("random-foot", mmd.EXT_DEFAULT | E["RANDOM_FOOT"], b""), ("random-labels", mmd.EXT_DEFAULT | E["RANDOM_LABELS"], b""),
        ("no-labels", mmd.EXT_DEFAULT | E["NO_LABELS"], b""), ("base-header-2", mmd.EXT_DEFAULT | E["SNIPPET"], b"Base Header Level: 2\n\n"), ("base-header-3", mmd.EXT_DEFAULT | E["SNIPPET"], b"HTML Header Level: 3\n\n")]

TAG = re.compile(rb"<(a|li|h[1-6]|table|figure|caption|dt|div|span)\b([^>]*)>")
def attr(s, name):
    m = re.search(name + rb'="([^"]*)"', s)
    return m.group(1).decode("utf-8", "replace") if m else None

def analyse(html, not_cited=False, renamed=False, random_labels=False):
    """returns list of problems (signature fragment, detail)"""
    probs = []
    ids = {}; order = []
    for m in TAG.finditer(html):
        i = attr(m.group(2), rb"\bid")
        if i is not None:
            ids.setdefault(i, []).append(m.start()); order.append((m.start(), m.group(1).decode(), i, m.group(2)))
    links = [(m.start(), attr(m.group(2), rb"href"), attr(m.group(2), rb"\bid"), attr(m.group(2), rb"class") or "") for m in TAG.finditer(html) if m.group(1) == b"a"]
    links = [l for l in links if l[1] and l[1].startswith("#")]
    for kind, cls, pre in (("footnote", "footnote", "fn"), ("citation", "citation", "cn"), ("glossary", "glossary", "gn")):
        calls = [l for l in links if l[3].split() and l[3].split()[0] == cls]
        entries = [(pos, i) for pos, tag, i, _ in order if tag in ("li", "dt") and i.startswith(pre + ":")]
        entry_ids = [i for _, i in entries]
        first_call = {}
        for pos, href, cid, _ in calls:
            tgt = href[1:]
            if tgt not in entry_ids:
                probs.append(("%s-call-target-missing" % kind, "call links to #%s but the %s list has entries %r" % (tgt, kind, entry_ids)))
            first_call.setdefault(tgt, (pos, cid))
        # entries numbered 1..n (or consistently renamed) in order of first use
        used = [t for t, _ in sorted(first_call.items(), key=lambda kv: kv[1][0])]
        listed_used = [i for i in entry_ids if i in first_call]
        if used != listed_used and not [p for p in probs if p[0].endswith("target-missing")] and not (kind == "citation" and not_cited):     # a 'not cited' mention is a first use that leaves no call in the HTML
            probs.append(("%s-order" % kind, "entries %r are not in order of first use %r" % (listed_used, used)))
        nums = [i.split(":", 1)[1] for i in entry_ids]
        if nums and not renamed and all(n.isdigit() for n in nums) and [int(n) for n in nums] != list(range(1, len(nums) + 1)):
            probs.append(("%s-numbering" % kind, "entries are numbered %r" % nums))
        # back links
        for pos, i in entries:
            end = html.find(b"</li>", pos) if html[pos:pos + 3] == b"<li" else html.find(b"</dd>", pos)
            seg = html[pos:end if end > 0 else len(html)]
            back = re.search(rb'<a href="#([^"]*)"[^>]*class="reverse', seg)
            if not back: continue
            b = back.group(1).decode()
            if i not in first_call:
                continue          # entry without a call (e.g. 'not cited'): nothing to return to
            fpos, fid = first_call[i]
            if fid != b and not (kind == "citation" and not_cited and fid is None):
                probs.append(("%s-backlink" % kind, "entry %s links back to #%s but its first call carries id %r" % (i, b, fid)))
    # every other generated reference resolves (cross references, TOC)
    toc = re.search(rb'<div class="TOC">(.*?)</div>', html, re.S)
    toc_span = (toc.start(), toc.end()) if toc else (-1, -1)
    for pos, href, cid, cls in links:
        if cls.split() and cls.split()[0] in ("footnote", "citation", "glossary", "reversefootnote", "reversecitation", "reverseglossary"): continue
        if href[1:] not in ids:
            where = "toc-entry" if toc_span[0] <= pos < toc_span[1] else "cross-reference"
            if where == "toc-entry" and random_labels:
                # under --unique the recorded finding concerns entries AFTER a manually labelled heading (the counter runs ahead there);
                # an entry that dangles before any manual label is something else
                m = re.search(rb'href="#lbl"', html[toc_span[0]:toc_span[1]])
                if not m or pos < toc_span[0] + m.start(): where = "toc-entry-before-any-manual-label"
            probs.append(("%s-dangling" % where, "link to %s but no element carries that id (ids: %r)" % (href, sorted(ids)[:12])))
    # a TOC entry that resolves must resolve to the heading it names
    if toc:
        heads = {m.group(2): re.sub(rb"<[^>]*>", b"", m.group(3)).strip() for m in re.finditer(rb'<h([1-6]) id="([^"]*)"[^>]*>(.*?)</h\1>', html, re.S)}
        for m in re.finditer(rb'<a href="#([^"]*)">(.*?)</a>', toc.group(1), re.S):
            target, text = m.group(1), re.sub(rb"<[^>]*>", b"", m.group(2)).strip()
            if target in heads and not (heads[target] == text or (text and heads[target].startswith(text) and b"<a " in m.group(2) + b"<a ")) and not heads[target].startswith(text.split(b" ")[0] if text else b"\x00"):
                lm = re.search(rb'href="#lbl"', toc.group(1))
                after_manual = random_labels and lm is not None and m.start() > lm.start()
                probs.append(("toc-entry-dangling" if after_manual else "toc-entry-wrong-target", "the entry %r links to #%s, which is the heading %r" % (text.decode("utf-8", "replace"), target.decode("utf-8", "replace"), heads[target].decode("utf-8", "replace"))))
    return probs

def make_case(L):
    n = len(F)
    def case(idx):
        oi = idx % len(OPTS); idx //= len(OPTS); wi = idx % len(WRAP); idx //= len(WRAP)
        combo = []
        for _ in range(L): combo.append(idx % n); idx //= n
        if L >= 3 and len(set(combo)) < L: return (None, [], dict(skipped=1))
        body = b"".join(F[i] for i in combo[::-1])
        oname, ext, meta = OPTS[oi]; wname, w = WRAP[wi]
        doc = meta + (w % body) + DEFS
        out = mmd.convert(doc, ext, 0)
        v = []; seen = set()
        for frag, det in analyse(out, b"[Not cited]" in body, oname == "random-foot", oname == "random-labels"):
            sig = "anchor:%s:%s" % (frag, oname)
            if sig in seen: continue
            seen.add(sig)
            v.append((sig, det, dict(src=doc.decode("latin-1"), options=oname, ext=ext)))
        # the same document asked a second time of one engine: the id/href graph must be as sound as the first time
        if L <= 2:
            out2 = mmd.convert(doc, ext, 0, 0, 3)
            for frag, det in analyse(out2, b"[Not cited]" in body, oname == "random-foot", oname == "random-labels"):
                sig = "anchor:%s:%s" % (frag, oname)
                if sig in seen: continue
                seen.add(sig); v.append((sig + ":second-conversion-on-one-engine" if not any(x[0] == sig for x in v) else sig, det, dict(src=doc.decode("latin-1"), options=oname, ext=ext, call="second mmd_engine_convert on one engine")))
        # LaTeX: every \autoref has a \label
        tex = mmd.convert(doc, ext, 2)
        labels = set(re.findall(rb"\\label\{([^}]*)\}", tex))
        for r in set(re.findall(rb"\\autoref\{([^}]*)\}", tex)):
            if r not in labels:
                sig = "anchor:latex-autoref-without-label:%s" % oname
                if sig not in seen:
                    seen.add(sig); v.append((sig, "\\autoref{%s} but labels are %r" % (r.decode("utf-8", "replace"), sorted(labels)[:10]), dict(src=doc.decode("latin-1"), options=oname, ext=ext)))
        # EPUB: the navigation document's links must resolve inside main.xhtml (one wrapper is enough: the nav is built from the headings)
        if wname == "para" and L <= 2:
            import io, zipfile
            try:
                z = zipfile.ZipFile(io.BytesIO(mmd.convert_to_data(doc, ext, 1, 0, None)))
                nav = z.read("OEBPS/nav.xhtml"); main = z.read("OEBPS/main.xhtml")
                mids = set(re.findall(rb'\bid="([^"]*)"', main)); heads = {m.group(2): re.sub(rb"<[^>]*>", b"", m.group(3)).strip() for m in re.finditer(rb'<h([1-6]) id="([^"]*)"[^>]*>(.*?)</h\1>', main, re.S)}
                lm = re.search(rb'href="main.xhtml#lbl"', nav)
                for m in re.finditer(rb'<a href="main\.xhtml#([^"]*)">(.*?)</a>', nav, re.S):
                    target, text = m.group(1), re.sub(rb"<[^>]*>", b"", m.group(2)).strip()
                    after_manual = oname == "random-labels" and lm is not None and m.start() > lm.start()
                    bad = None
                    if target not in mids: bad = "epub-nav-entry-dangling"
                    elif target in heads and heads[target] != text: bad = "epub-nav-entry-wrong-target"
                    if bad:
                        sig = "anchor:%s:%s" % ("toc-entry-dangling" if (after_manual or (oname == "no-labels" and bad == "epub-nav-entry-dangling")) else bad, oname)      # the recorded TOC findings have the same cause in the EPUB navigation document
                        if sig not in seen:
                            seen.add(sig); v.append((sig, "EPUB nav entry %r links to main.xhtml#%s (ids in main.xhtml: %r)" % (text.decode("utf-8", "replace"), target.decode("utf-8", "replace"), sorted(mids)[:10]), dict(src=doc.decode("latin-1"), options=oname, ext=ext, format="epub")))
            except (zipfile.BadZipFile, KeyError) as e:
                v.append(("anchor:epub-unreadable:%s" % oname, "EPUB could not be read: %s" % e, dict(src=doc.decode("latin-1"), options=oname, ext=ext)))
        return (pmap.h64(out), v, dict(judged=1))
    return case, n ** L * len(WRAP) * len(OPTS)

def run(tier):
    rep = core.Report("C10", tier, "exploration")
    rep.rule = ("all sequences up to the level's length over %d reference fragments (footnote/citation/glossary/abbreviation calls incl. repeated, inline, 'not cited', with locator; cross references to ATX, closed ATX, Setext, "
                "manually labelled, duplicate-title, punctuation/Unicode-title headings and a captioned table) in 5 wrappers x {default, random footnotes, random labels, no labels, base header level 2/3}; the fixed tail defines every note "
                "and heading; oracle on the HTML: call targets exist, entries in first-use order numbered 1..n (or consistently renamed), back link = id of the first call, every cross reference / TOC link resolves and points at the heading it names; EPUB navigation entries resolve inside main.xhtml; "
                "LaTeX: every \\autoref has a \\label; distinct = distinct HTML outputs" % len(F))
    rep.assumptions = ["ids need not be unique (two headings with the same title share an id by design)", "an unresolved reference left as literal text is not judged", "libc rand() is seeded by the harness before each conversion"]
    mmd.so_path(); dl = core.deadline_s(tier)
    for L in ((1, 2, 3) if tier == "quick" else (1, 2, 3, 4)):
        case, n = make_case(L)
        res = pmap.pmap(n, case, deadline_s=dl * 0.9)
        pmap.fold(rep, "fragments-len%d" % L, n, res, "fragment sequences of length %d x 5 wrappers x 6 option sets" % L)
    rep.add_sample(dict(body=(F[0] + F[2] + F[11]).decode("latin-1"), wrapper="toc", options="random-foot"))
    rep.add_sample(dict(tail=DEFS.decode("latin-1")))
    return rep.finish()

def replay(rec):
    c = rec["cases"][0]; src = c["src"].encode("latin-1")
    out = mmd.convert(src, c["ext"], 0); print(out.decode("utf-8", "replace")); print(analyse(out)); return 1
def prepare(): mmd.so_path()

META = dict(level="exploration", engine="E5",
    technique="bounded-exhaustive enumeration of documents over a notes/headings alphabet x option sets; structural oracle over the emitted ids and links",
    text="Every sequence of reference fragments up to the stated length, in paragraph, list, quote, nested-list and TOC wrappers, under default, random-anchor, no-label and base-header-level options, is rendered and the id/href graph of the output is checked against the statement: targets exist, first-use order and numbering, back links to the first call, TOC and cross references resolve.",
    note="regex-free attribute scanner over the library's own HTML; the statement's exemptions (not-cited back links, duplicate ids) are honoured")
