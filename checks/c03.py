"""C03 HTML agrees with the documented semantics; rendering is compositional.
Layer 1: compositionality (differential).  Layer 2: spelling equivalence (metamorphic).  Layer 3: reference renderer."""
import itertools, re
from vp import core, mmd, pmap
from vp.blocks import BLOCKS, MMD_ONLY, INDENTED, LISTS, TABLES, DEFLISTS

MODES = [("mmd", mmd.EXT_DEFAULT), ("mmd-nosmart", mmd.EXT_DEFAULT & ~mmd.EXT["SMART"]), ("compat", mmd.EXT_COMPAT), ("compat-smart", mmd.EXT_COMPAT | mmd.EXT["SMART"])]

def html(doc, ext): return mmd.convert(doc, ext | mmd.EXT["SNIPPET"], 0)

# ------------------------------------------------------------------ layer 1
def comp_case(L):
    idxs = [i for i in range(len(BLOCKS)) if i not in LISTS]
    n = len(idxs)
    def case(idx):
        mi = idx // (n ** L); idx %= n ** L          # mode is the slowest axis: a worker (indices w, w+16, ...) meets every mode, so state that leaks between conversions with different options shows up
        seq = []
        for _ in range(L): seq.append(idxs[idx % n]); idx //= n
        seq = seq[::-1]; mname, ext = MODES[mi]
        if mname.startswith("compat") and any(i in MMD_ONLY for i in seq): return (None, [], dict(skipped=1))
        if any(a in INDENTED and b in INDENTED for a, b in zip(seq, seq[1:])): return (None, [], dict(skipped=1))   # two indented blocks are one block by definition
        if any((a in TABLES and b in TABLES) or (a in DEFLISTS and (b in DEFLISTS or b in INDENTED)) for a, b in zip(seq, seq[1:])): return (None, [], dict(skipped=1))   # one block by definition
        doc = b"".join(BLOCKS[i] for i in seq)
        whole = html(doc, ext).rstrip(b"\n")
        parts = b"\n\n".join(html(BLOCKS[i], ext).rstrip(b"\n") for i in seq)
        v = []
        if whole != parts:
            # attribute to the first adjacent pair that is not compositional on its own
            culprit = None
            for a, b in zip(seq, seq[1:]):
                if html(BLOCKS[a] + BLOCKS[b], ext).rstrip(b"\n") != html(BLOCKS[a], ext).rstrip(b"\n") + b"\n\n" + html(BLOCKS[b], ext).rstrip(b"\n"):
                    culprit = (a, b); break
            sig = "compositional:pair:%d+%d:%s" % (culprit[0], culprit[1], mname.split("-")[0]) if culprit else "compositional:len%d:%s:%s" % (L, "+".join(map(str, seq)), mname.split("-")[0])
            v.append((sig, "html(%r) is not the concatenation of the renderings of its blocks" % doc, dict(src=doc.decode("latin-1"), mode=mname, blocks=seq, whole=whole.decode("utf-8", "replace"), parts=parts.decode("utf-8", "replace"))))
        return (pmap.h64(doc + bytes([mi])), v, dict(judged=1))
    return case, n ** L * len(MODES)

# ------------------------------------------------------------------ layer 2
LEAD = [b"", b" ", b"  ", b"   "]
def spell_para(): return [("lead=%d" % i, LEAD[i] + b"some text here\n\n") for i in range(4)]
def spell_emph():
    out = []
    for e, ename in ((b"*", "star"), (b"_", "ul")):
        out.append(("emph=" + ename, b"an " + e + b"emphasised" + e + b" and " + e * 2 + b"strong" + e * 2 + b" word\n\n"))
    return out
def spell_atx(level):
    out = []
    for li in range(4):
        for closer, cname in ((b"", "none"), (b" " + b"#" * level, "same"), (b" " + b"#" * min(6, level + 2), "more")):
            out.append(("lead=%d,closer=%s" % (li, cname), LEAD[li] + b"#" * level + b" Heading text" + closer + b"\n\n"))
    return out
def spell_setext(ch):
    return [("underline=%d" % n, b"Heading text\n" + ch * n + b"\n\n") for n in (3, 2, 7)]
def spell_bullets():
    out = []
    for li in range(4):
        for m in (b"*", b"+", b"-"):
            out.append(("lead=%d,marker=%s" % (li, m.decode()), LEAD[li] + m + b" one\n" + LEAD[li] + m + b" two\n\n"))
    return out
def spell_enum():
    out = []
    for li in range(4):
        for a, b, nm in ((b"1.", b"2.", "1-2"), (b"7.", b"8.", "7-8"), (b"1.", b"1.", "1-1")):
            out.append(("lead=%d,numbers=%s" % (li, nm), LEAD[li] + a + b" one\n" + LEAD[li] + b + b" two\n\n"))
    return out
def spell_hr():
    out = []
    for li in range(4):
        for s, nm in ((b"* * *", "star-spaced"), (b"***", "star"), (b"- - -", "dash-spaced"), (b"___", "ul"), (b"_ _ _", "ul-spaced"), (b"*****", "star5")):
            out.append(("lead=%d,rule=%s" % (li, nm), LEAD[li] + s + b"\n\n"))
    return out
def spell_fence():
    return [("fence=%d" % n, b"`" * n + b"\ncode <x> & y\n" + b"`" * n + b"\n\n") for n in (3, 4, 5)]
def spell_quote():
    out = []
    for li in range(4):
        for sp, nm in ((b"> ", "space"), (b">", "tight")):
            out.append(("lead=%d,marker=%s" % (li, nm), LEAD[li] + sp + b"quoted text\n\n"))
    return out
def spell_indented():
    return [("indent=spaces", b"    code <x>\n\n"), ("indent=tab", b"\tcode <x>\n\n")]
def spell_reflink():
    return [("lead=%d" % i, b"a [ref] link\n\n" + LEAD[i] + b"[ref]: http://example.com/\n\n") for i in range(4)]

def spell_hardbreak():
    return [("break=two-spaces", b"line one  \nline two\n\n"), ("break=three-spaces", b"line one   \nline two\n\n"), ("break=backslash", b"line one\\\nline two\n\n")]
def spell_codespan():
    return [("ticks=1", b"a `code <x> & y` b\n\n"), ("ticks=2", b"a ``code <x> & y`` b\n\n"), ("ticks=2-padded", b"a `` code <x> & y `` b\n\n")]
def spell_link():
    return [("link=inline", b'a [text](http://example.com/ "T") b\n\n'), ("link=reference", b'a [text][ref] b\n\n[ref]: http://example.com/ "T"\n\n'), ("link=reference-case", b'a [text][REF] b\n\n[ref]: http://example.com/ "T"\n\n'),
            ("link=implicit", b'a [text][] b\n\n[text]: http://example.com/ "T"\n\n'), ("link=shortcut", b'a [text] b\n\n[text]: http://example.com/ "T"\n\n'), ("link=reference-single-quote-title", b"a [text][ref] b\n\n[ref]: http://example.com/ 'T'\n\n"),
            ("link=reference-angle", b'a [text][ref] b\n\n[ref]: <http://example.com/> "T"\n\n')]
def spell_table():
    """the same 3x2 table with different cell padding, outer pipes and an empty middle cell; compared after trimming blanks inside cells"""
    out = []
    for pad, pn in ((b" ", "1"), (b"  ", "2"), (b"   ", "3"), (b"    ", "4"), (b"\t", "tab")):
        for emp, en in ((b" ", "1"), (b"  ", "2"), (b"   ", "3"), (b"    ", "4"), (b"\t", "tab")):
            for outer, on in ((1, "yes"), (0, "no")):
                def row(cells):
                    r = b"|".join(pad + c + pad if c else emp for c in cells)
                    return (b"|" + r + b"|" if outer else r.strip(b" \t") if cells[0] and cells[-1] else b"|" + r + b"|") + b"\n"
                t = row([b"h1", b"h2", b"h3"]) + b"|---|:-:|--:|\n" + row([b"x", b"", b"z"]) + row([b"a", b"b", b"c"]) + b"\n"
                out.append(("pad=%s,empty=%s,outer=%s" % (pn, en, on), t))
    return out
KINDS = [("table", spell_table, True), ("hardbreak", spell_hardbreak, False), ("codespan", spell_codespan, False), ("link", spell_link, False), ("para", spell_para, False), ("emph", spell_emph, False), ("atx1", lambda: spell_atx(1), False), ("atx3", lambda: spell_atx(3), False),
         ("setext1", lambda: spell_setext(b"="), False), ("setext2", lambda: spell_setext(b"-"), False), ("bullets", spell_bullets, False), ("enum", spell_enum, False),
         ("hr", spell_hr, False), ("fence", spell_fence, True), ("quote", spell_quote, False), ("indented", spell_indented, False), ("reflink", spell_reflink, False)]
CONTEXTS = [(b"", b""), (b"before text\n\n", b"after text\n\n"), (b"# Heading before\n\n", b"> quote after\n\n"), (b"* item before\n\n", b"    code after\n\n")]

def axes_of(label): return label.split(",")

def spelling_case():
    combos = [(k, c, m, crlf) for k in range(len(KINDS)) for c in range(len(CONTEXTS)) for m in range(len(MODES)) for crlf in (0, 1)]
    def case(idx):
        idx = (idx * 7919) % len(combos) if len(combos) % 7919 else idx      # a fixed permutation: every worker meets every mode
        k, c, m, crlf = combos[idx]; kname, fn, mmd_only = KINDS[k]; mname, ext = MODES[m]
        if mmd_only and mname.startswith("compat"): return (None, [], dict(skipped=1))
        pre, post = CONTEXTS[c]
        if kname == "indented" and c == 3: return (None, [], dict(skipped=1))       # indented code directly after a list item is a continuation of the item
        if kname in ("bullets",) and c == 3: return (None, [], dict(skipped=1))       # a list after a list of the same kind is one list
        spellings = fn()
        def render(s):
            doc = pre + s + post
            if crlf: doc = doc.replace(b"\n", b"\r\n")
            h = html(doc, ext).replace(b"\r", b"")
            if kname == "table": h = re.sub(rb"[ \t]*(</?t[dh][^>]*>)[ \t]*", rb"\1", h)        # blanks at the edge of a cell are padding
            return h
        canon_label, canon = spellings[0]; base = render(canon); canon_axes = axes_of(canon_label); by_label = {l: t for l, t in spellings}
        v = []; failing_single = set(); judged = 0
        order = sorted(spellings[1:], key=lambda s: sum(a != b for a, b in zip(axes_of(s[0]), canon_axes)))
        for label, s in order:
            dev = [a for a, b in zip(axes_of(label), canon_axes) if a != b]
            ref = base; ref_s = canon
            if any(d in failing_single for d in dev) and len(dev) > 1:
                # part of this deviation already fails on its own: judge the REST of it against the spelling that deviates only in the failing axes
                # (so that a recorded finding about one axis does not hide a different defect that needs it as a companion)
                keep = [a if a in failing_single else b for a, b in zip(axes_of(label), canon_axes)]
                ref_s = by_label.get(",".join(keep))
                if ref_s is None or keep == axes_of(label): continue
                ref = render(ref_s); dev = [d for d in dev if d not in failing_single]
            judged += 1
            out = render(s)
            if out != ref:
                if len(dev) == 1: failing_single.add(dev[0])
                sig = "spelling:%s:%s" % (re.sub(r"\d+$", "", kname) if kname.startswith("atx") else kname, "+".join(dev))
                v.append((sig, "spelling %r renders differently from the reference spelling %r" % (pre + s + post, pre + ref_s + post),
                          dict(src=(pre + s + post).decode("latin-1"), canonical=(pre + ref_s + post).decode("latin-1"), mode=mname, crlf=crlf, got=out.decode("utf-8", "replace"), expected=ref.decode("utf-8", "replace"))))
        if crlf:
            lf = html(pre + canon + post, ext)
            if kname == "table": lf = re.sub(rb"[ \t]*(</?t[dh][^>]*>)[ \t]*", rb"\1", lf)
            if lf != base:
                v.append(("spelling:%s:crlf" % kname, "CRLF line ends change the rendering of %r" % (pre + canon + post),
                          dict(src=(pre + canon + post).replace(b"\n", b"\r\n").decode("latin-1"), mode=mname)))
        return (pmap.h64(bytes([k, c, m, crlf])), v, dict(judged=judged))
    return case, len(combos)

def run(tier):
    rep = core.Report("C03", tier, "exploration")
    rep.rule = ("layer 1: every sequence of self-contained blocks (paragraphs with each inline construct, ATX/Setext headings, rules, fenced/indented code, block quotes) up to the level's length, "
                "4 modes: html(document) must equal the concatenation of html(block); layer 2: every abstract block kind serialised in every combination of its equivalent spellings "
                "(markers, enumerators, emphasis character, closing #, underline length, 0-3 leading spaces, fence length, LF/CRLF) in 4 contexts x 4 modes must render identically; "
                "a failing combination is attributed to its single-axis deviation when that alone fails; distinct = distinct (document, mode)")
    rep.assumptions = ["lists are not part of the compositionality claim (the statement lists paragraphs, headings, rules, code blocks and block quotes)",
                       "two adjacent indented-code blocks are one block by definition and are skipped",
                       "layer 3 (reference renderer for the documented HTML of each construct) is in checks/c03_ref.py when present"]
    mmd.so_path(); dl = core.deadline_s(tier)
    for L in ((1, 2, 3) if tier == "quick" else (1, 2, 3, 4)):
        case, n = comp_case(L)
        res = pmap.pmap(n, case, deadline_s=dl * 0.7)
        pmap.fold(rep, "compositional-len%d" % L, n, res, "all block sequences of length %d x 4 modes" % L)
    case, n = spelling_case()
    res = pmap.pmap(n, case, deadline_s=dl * 0.9)
    pmap.fold(rep, "spellings", n, res, "%d block kinds x all spelling combinations x 4 contexts x 4 modes x LF/CRLF" % len(KINDS))
    rep.add_sample(dict(layer=1, blocks=[BLOCKS[2].decode(), BLOCKS[14].decode(), BLOCKS[21].decode()], relation="html(b1 b2 b3) == html(b1)+html(b2)+html(b3)"))
    rep.add_sample(dict(layer=2, kind="atx1", spellings=[s.decode() for _, s in spell_atx(1)[:5]]))
    try:
        from checks import c03_ref
        c03_ref.run_layer(rep, tier)
    except ImportError:
        pass
    return rep.finish()

def replay(rec):
    c = rec["cases"][0]; src = c["src"].encode("latin-1")
    ext = dict(MODES)[c.get("mode", "mmd")]
    print(html(src, ext).decode("utf-8", "replace"))
    if "canonical" in c: print("---- canonical"); print(html(c["canonical"].encode("latin-1"), ext).decode("utf-8", "replace"))
    return 1

def prepare(): mmd.so_path()

META = dict(level="exploration", engine="E5",
    technique="bounded-exhaustive enumeration of abstract documents: differential compositionality over all block sequences, metamorphic equivalence over all concrete spellings, reference renderer for the documented constructs",
    text="All block sequences up to the stated length must render to the concatenation of their parts, and every combination of equivalent concrete spellings of each construct must render to identical bytes, in MMD and compatibility mode with smart typography on and off; no expected output is hand-written for these two layers.",
    note="the abstract grammar generates only unambiguous uses (delimiters flanked as in the guide, a blank line between blocks)")
