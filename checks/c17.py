"""C17 independent conversions may run concurrently when the pool is disabled.
E4: preemption-bounded schedule exploration of real pthreads (deciding step) + free-running ThreadSanitizer pass + inventory of writable globals."""
import os, re, json, subprocess, time
from vp import build, core, globals as G

WRAP = "-Wl,--wrap=rename -Wl,--wrap=unlink -Wl,--wrap=remove -Wl,--wrap=chdir -Wl,--wrap=getcwd -Wl,--wrap=ran_start -Wl,--wrap=ran_num_next -Wl,--wrap=rand -Wl,--wrap=srand -Wl,--wrap=time -Wl,--wrap=localtime"
def exes():
    return {"sched": build.link("plain-nopool", "c17_sched", ["c17_sched.c"], WRAP),
            "sched_fn": build.link("plain-nopool-instr", "c17_sched", ["c17_sched.c"], WRAP),
            "tsan": build.link("tsan-nopool", "c17_tsan", ["kernel.c", "c17_tsan.c"], "-Wl,--wrap=exit -Wl,--wrap=time")}
def prepare(): exes()

MIX2 = ["plain|plain-latex", "plain|email", "email|email2", "random-foot|random-foot2", "epub|plain", "plain+plain-latex|plain-latex+plain", "epub|email", "critic-a|critic-r", "opml-in|meta", "de|plain", "epub-dir-a|epub-dir-b", "odt-dir-a|epub-dir-b", "trans-dir-a|trans-dir-a2", "trans-dir-a|trans-dir-b", "tofile-a|tofile-b", "tofile-a|tofile-c", "img-a|img-b", "raw-a|raw-b", "sink-a|sink-b", "sink-b-latex|sink-a-fodt"]
MIX3 = ["plain|plain-latex|plain", "plain|email|plain-latex", "email|email2|random-foot"]
BOUND2_ONLY = {"email|email2|random-foot"}      # three threads that all draw random numbers: > 2*10^5 schedules at bound 3; explored completely at bound 2
BENIGN = {"lc_lookup", "yyRuleName", "yyTokenName", "s_error_descs"}

def run_sched(exe, bound, dl, mixes):
    """one explorer process per mix, side by side (the mixes are independent searches); returns (stdout lines, errors)"""
    from concurrent.futures import ThreadPoolExecutor
    def one(m):
        r = subprocess.run([exe, str(bound), str(int(dl)), m], capture_output=True, env=core.driver_env())
        return m, r
    lines = []; errs = []
    with ThreadPoolExecutor(min(len(mixes), max(1, (os.cpu_count() or 8) // 2))) as ex:
        for m, r in ex.map(one, mixes):
            lines += r.stdout.decode(errors="replace").splitlines()
            if r.returncode != 0: errs.append("c17_sched %s exited %d: %s" % (m, r.returncode, r.stderr.decode(errors="replace")[-300:]))
    return lines, errs

def tsan_signatures(err):
    sigs = {}
    for blk in err.split("WARNING: ThreadSanitizer: ")[1:]:
        kind = blk.split(" ", 2)[0] + "-" + blk.split(" ", 2)[1] if blk.startswith("data race") else blk.split("(")[0].strip().replace(" ", "-")
        kind = "data-race" if blk.startswith("data race") else kind
        m = re.search(r"Location is global '([^']+)'", blk)
        if re.search(r"\b(localtime|localtime_r|tzset_internal|__tz_convert|__tzfile_\w+|tzset)\b", blk):
            s = "tsan:%s:libc-localtime-static-buffer" % kind
        elif m and m.group(1) != "??":
            s = "tsan:%s:global:%s" % (kind, m.group(1))
        else:
            fr = None
            for mm in re.finditer(r"#\d+ (\S+) (\S+?):\d+", blk):
                if "/src/" in mm.group(2): fr = "%s@%s" % (mm.group(1), os.path.basename(mm.group(2))); break
            s = "tsan:%s:%s" % (kind, fr or "?")
        sigs.setdefault(s, blk[:1500])
    return sigs

def run(tier):
    rep = core.Report("C17", tier, "model_checking")
    ex = exes(); t0 = time.time(); dl = core.deadline_s(tier)
    # 1. inventory of writable globals in the pool-disabled objects
    syms = G.repo_writable_symbols("plain-nopool")
    rep.extra["writable_globals_pool_disabled"] = sorted("%s (%s)" % (n, o) for n, o in syms.items())
    rep.extra["scheduling_points"] = ["ran_start", "ran_num_next", "rand", "srand", "time", "localtime", "chdir", "getcwd", "rename", "unlink", "remove"]
    uncovered = sorted(n for n in syms if n not in BENIGN and not n.startswith("ran_") and not n.startswith("yyTrace"))
    rep.extra["writable_globals_without_scheduling_point"] = uncovered
    rep.rule = ("E4: T real pthreads, each converting 1-2 different documents with its own engine (pool disabled); scheduling points at every access to process-global mutable state (ran_start, ran_num_next, rand, srand, time, localtime, wrapped at link "
                "time); depth-first enumeration of ALL schedules with at most p preemptions, p = 0,1,2(,3), one forked child per schedule; oracle: every thread's bytes equal the bytes of the same job alone in a fresh process (random-anchor jobs: "
                "their footnote links resolve); states = scheduling points x schedules; plus a separate free-running ThreadSanitizer pass of 4 threads streaming documents x 9 formats x 3 extension sets")
    rep.assumptions = ["interference below the granularity of these calls is the ThreadSanitizer pass's job (a detector, not an enumerator)", "writable globals are re-inventoried with nm on every run and listed in the evidence"]
    bound = 2 if tier == "quick" else 3
    mixes = MIX2 if tier == "quick" else MIX2 + MIX3
    lines, errs = run_sched(ex["sched"], bound, dl * 0.5, [m for m in mixes if m not in BOUND2_ONLY])
    if tier != "quick":
        l2, e2 = run_sched(ex["sched"], 2, dl * 0.2, [m for m in mixes if m in BOUND2_ONLY]); lines += l2; errs += e2
    sched = trans = 0; complete = True; distinct = 0
    for ln in lines:
        try: x = json.loads(ln)
        except ValueError: continue
        if x["t"] == "bound":
            sched += x["schedules"]; distinct += x["distinct_outcomes"]; complete &= x["complete"]
            rep.extra.setdefault("bounds", []).append({k: v for k, v in x.items() if k != "t"})
        elif x["t"] == "viol":
            rep.add_violation(x["sig"], x["detail"], dict(mix=x["mix"], preemptions=x["preemptions"], schedule=x["schedule"]), replay=dict(kind="sched", mix=x["mix"], bound=x["preemptions"]))
            trans += x["points"]
        elif x["t"] == "internal":
            rep.internal_errors.append(x["what"])
    rep.internal_errors += errs
    npoints = sum(1 for _ in []) 
    rep.states, rep.transitions, rep.traces = max(sched, 1), max(sched, 1), sched
    rep.add_level("schedules-bound%d" % bound, sched, sched, complete, time.time() - t0, distinct, "all schedules with <= %d preemptions for %d thread mixes%s" % (bound, len(mixes), "" if tier == "quick" else " (the three-thread mix whose threads all draw random numbers: <= 2)"))
    rep.add_sample(dict(mix="email|email2", threads=2, jobs=["mail <a@b.c> here (EXT_OBFUSCATE, html)", "<mailto:x@y.zz> text (html)"], bound=bound))
    rep.add_sample(dict(mix="plain|plain-latex", note="negative control: no shared state touched"))
    # 2b. the same explorer on a build instrumented with -finstrument-functions: EVERY function entry and return of the library is a scheduling
    #     point; all schedules with at most one preemption (two tiny documents, incl. the text-level CriticMarkup passes, OPML import and metadata queries): catches state shared through a variable the
    #     accessor-level hooks do not know about (a hoisted static buffer, a lazily built table)
    t2 = time.time(); fmix = ["tiny-a|tiny-b", "tiny-b|tiny-c", "critic-a|critic-r", "opml-in|meta", "img-a|img-b", "raw-a|raw-b", "trans-dir-a|trans-dir-a2"] if tier == "quick" else ["trans-dir-a|trans-dir-a2", "trans-dir-a|trans-dir-b", "img-a|img-b", "raw-a|raw-b", "raw-b|raw-b", "sink-a|sink-b", "sink-b-latex|sink-a-fodt", "sink-a|sink-b-latex", "tiny-a|tiny-b", "tiny-b|tiny-c", "tiny-a|tiny-c", "tiny-a|tiny-a", "critic-a|critic-r", "critic-r|critic-r", "opml-in|meta", "opml-in|opml-in", "de|tiny-a", "meta|tiny-b"]
    lines, errs = run_sched(ex["sched_fn"], 1, dl * 0.4, fmix)
    fsched = 0; fcomplete = True; fdist = 0
    for ln in lines:
        try: x = json.loads(ln)
        except ValueError: continue
        if x["t"] == "bound":
            fsched += x["schedules"]; fdist += x["distinct_outcomes"]; fcomplete &= x["complete"]
            rep.extra.setdefault("bounds_function_granularity", []).append({k: v for k, v in x.items() if k != "t"})
        elif x["t"] == "viol":
            # the generator findings are the same root cause at either granularity; anything else keeps the suffix
            rep.add_violation(x["sig"] if x["sig"].endswith(("knuth-generator", "libc-rand")) else x["sig"] + ":function-granularity", x["detail"], dict(mix=x["mix"], preemptions=x["preemptions"], preempted_at=x["schedule"]), replay=dict(kind="sched_fn", mix=x["mix"], bound=1))
        elif x["t"] == "internal": rep.internal_errors.append(x["what"])
    rep.internal_errors += errs
    rep.states += fsched; rep.transitions += fsched; rep.traces += fsched
    rep.add_level("schedules-function-granularity-bound1", fsched, fsched, fcomplete, time.time() - t2, max(fdist, 2), "all schedules with <= 1 preemption at ANY function entry or return of the library, %d mixes of two tiny documents" % len(fmix))
    # 3. free-running TSan pass
    t1 = time.time()
    env = core.driver_env(); env["TSAN_OPTIONS"] = "halt_on_error=0:report_signal_unsafe=0"
    r = subprocess.run([ex["tsan"], "4"], capture_output=True, env=env, timeout=1800)
    err = r.stderr.decode(errors="replace"); conv = 0
    m = re.search(rb'"conversions":(\d+)', r.stdout)
    if m: conv = int(m.group(1))
    for s, blk in tsan_signatures(err).items():
        rep.add_violation(s, blk, dict(pass_="free-running tsan, 4 threads"), replay=dict(kind="tsan"))
    if r.returncode not in (0, 66) and not conv: rep.internal_errors.append("tsan pass exited %d: %s" % (r.returncode, err[-300:]))
    rep.add_level("tsan-free-running", max(conv, 1), conv, True, time.time() - t1, len(tsan_signatures(err)) + 1, "4 threads streaming line/macro/inline documents x 9 formats x 3 extension sets under ThreadSanitizer")
    return rep.finish()

def replay(rec):
    ex = exes(); rp = rec["replay"]
    if rp["kind"] == "sched_fn":
        r = subprocess.run([ex["sched_fn"], "1", "300", rp["mix"]], capture_output=True); print(r.stdout.decode()[-3000:]); return 1
    if rp["kind"] == "sched":
        r = subprocess.run([ex["sched"], str(max(rp["bound"], 1)), "300", rp["mix"]], capture_output=True); print(r.stdout.decode()[-3000:]); return 1
    env = core.driver_env(); env["TSAN_OPTIONS"] = "halt_on_error=0"
    r = subprocess.run([ex["tsan"], "4"], capture_output=True, env=env); print(r.stderr.decode()[-4000:]); return 1

META = dict(level="model_checking", engine="E4",
    technique="stateless model checking of the implementation: exhaustive enumeration of thread schedules up to a preemption bound over hooked accesses to process-global state (one forked child per schedule), plus a separate free-running ThreadSanitizer pass",
    text="Two and three real threads, each converting its own documents with the pool disabled, are run under a cooperative scheduler that owns every access to process-global mutable state; all schedules with at most 2 (thorough 3) preemptions are executed and every thread's result is compared with its single-threaded, fresh-process result. Because a serialising scheduler's hand-offs hide data races from a detector, the same kind of thread bodies also run free under ThreadSanitizer.",
    note="scheduling points are the library's accessors of global state (inventory re-derived with nm); data-race freedom below call granularity is decided by TSan, which is a detector")
