"""C06 every documented entry point produces the same result (E5 grid over sources x formats x extension sets x API variants + CLI)."""
import io, os, re, zipfile, subprocess, tempfile, shutil, time, itertools
from vp import build, core, mmd, pmap
from vp.blocks import BLOCKS
from checks.c08 import load_alpha

ASSETS = os.path.join(core.VERIF, "fixtures", "assets")
TEXT = [("html", 0), ("latex", 2), ("beamer", 3), ("memoir", 4), ("opml", 9)]
PACK = [("epub", 1), ("odt", 6), ("bundlezip", 8), ("itmz", 10), ("fodt", 5), ("textbundle", 7), ("mmd", 11), ("htmlassets", 12)]
E = mmd.EXT
EXTS = [mmd.EXT_DEFAULT, mmd.EXT_COMPAT, 0, E["SMART"] | E["NOTES"] | E["CRITIC"] | E["COMPLETE"], mmd.EXT_DEFAULT | E["CRITIC_ACCEPT"], mmd.EXT_DEFAULT | E["NO_LABELS"] | E["PROCESS_HTML"] | E["SNIPPET"]]
UUID = re.compile(rb"[0-9a-f]{8}-[0-9a-f]{4}-[0-9a-f]{4}-[0-9a-f]{4}-[0-9a-f]{12}")
DATE = re.compile(rb"\d{4}-\d{2}-\d{2}")

def sources(tier):
    lines = load_alpha("lines"); macro = load_alpha("macro"); inl = load_alpha("inline")
    out = [l for l in lines] + [a + b for a in lines[:36] for b in lines[:36:(1 if tier != "quick" else 3)]]
    out += [m for m in macro if len(m) < 3000 and b"mmd header" not in m and b"transclude" not in m and b"{{" not in m]
    out += [b"a " + x + b" b " + y + b" c\n" for x in inl[:60] for y in inl[:60:(2 if tier != "quick" else 7)]]
    out += list(BLOCKS)
    tdir = os.path.join(core.REPO, "tests", "MMD6Tests")
    if os.path.isdir(tdir):
        for f in sorted(os.listdir(tdir)):
            if f.endswith(".text"):
                d = open(os.path.join(tdir, f), "rb").read()
                if b"{{" not in d and b"\x00" not in d and b"mmd header" not in d.lower() and b"mmd footer" not in d.lower(): out.append(d)
    return [s for s in out if b"\x00" not in s]

def norm_members(data):
    try:
        z = zipfile.ZipFile(io.BytesIO(data))
        return [(UUID.sub(b"U", n.encode()), DATE.sub(b"D", UUID.sub(b"U", z.read(n)))) for n in z.namelist()]
    except Exception:
        return [("<not a zip>", DATE.sub(b"D", UUID.sub(b"U", data or b"")))]

_tmp = None
def wdir():
    global _tmp
    if _tmp is None:
        _tmp = tempfile.mkdtemp(prefix="vp-c06-%d-%d-" % (os.getppid(), os.getpid()), dir="/dev/shm" if os.path.isdir("/dev/shm") else None)
        import atexit; atexit.register(lambda: shutil.rmtree(_tmp, ignore_errors=True))
    return _tmp

def make_case(srcs, langs=(0,)):
    fmts = TEXT + PACK
    def case(idx):
        lang = langs[idx % len(langs)]; idx //= len(langs)
        ei = idx % len(EXTS); idx //= len(EXTS); fi = idx % len(fmts); si = idx // len(fmts)
        doc = srcs[si]; fname, fmt = fmts[fi]; ext = EXTS[ei]; is_text = fi < len(TEXT)
        case_d = dict(src=doc[:400].decode("latin-1"), src_len=len(doc), format=fname, ext=ext, language=lang)
        v = []
        outs = {}
        if is_text:
            for fam, nm in ((0, "mmd_string_convert"), (1, "mmd_d_string_convert"), (2, "mmd_engine_convert"), (3, "mmd_engine_convert (second call on one engine)"), (4, "mmd_engine_convert (after convert_to_data and a metadata query on the engine)")):
                mmd.rng_fresh(); outs[nm] = mmd.convert(doc, ext, fmt, lang, fam)
        for fam, nm in ((0, "mmd_string_convert_to_data"), (1, "mmd_d_string_convert_to_data"), (2, "mmd_engine_convert_to_data")):
            mmd.rng_fresh(); outs[nm] = mmd.convert_to_data(doc, ext, fmt, lang, ASSETS.encode(), fam)
        path = os.path.join(wdir(), "o")
        for fam, nm in ((0, "mmd_string_convert_to_file"), (1, "mmd_d_string_convert_to_file"), (2, "mmd_engine_convert_to_file")):
            try: os.unlink(path)
            except OSError: pass
            mmd.rng_fresh(); mmd.convert_to_file(doc, path.encode(), ext, fmt, lang, ASSETS.encode(), fam)
            outs[nm] = open(path, "rb").read() if os.path.exists(path) else None
        ref_nm = "mmd_d_string_convert_to_data"; ref = outs[ref_nm]
        for nm, o in outs.items():
            if o is None or (o == b"" and (ref or b"") != b""):
                v.append(("entry:no-result:%s:%s" % (nm, fname if not is_text else "text"), "%s produced nothing for format %s" % (nm, fname), case_d)); continue
            if is_text or fname in ("fodt", "mmd", "htmlassets"):
                same = (o == ref)
            else:
                same = norm_members(o) == norm_members(ref)
            if not same:
                v.append(("entry:differs:%s:%s" % (nm, fname if not is_text else "text"), "%s disagrees with %s for format %s" % (nm, ref_nm, fname), case_d))
        return (pmap.h64(doc + bytes([fi, ei, lang])), v, dict(judged=len(outs)))
    return case, len(srcs) * len(fmts) * len(EXTS) * len(langs)

META_DOCS = [b"Title: abc\n\nbody\n", b"Title: abc", b"Title: abc\nAuthor: x y\n", b"Title: a\n    b\nmy key: x & y\n\nb\n", b"---\ntitle: x\nauthor: z\n---\n\nbody\n", b"no metadata\n", b"", b"Title:\n", b"a:b:c\n\n",
             b"\xef\xbb\xbfTitle: t\n\nText\n", b"Title: abc\r\nAuthor: x\r\n\r\nbody\r\n", b"K: v\n\n\nK2: w\n", b"# H\n\nTitle: no\n", b"x1: \xc3\xa9\xe2\x80\xa0\nx2: <b> & \"c\"\n\n"]
KEYS = [b"title", b"Title", b"author", b"my key", b"mykey", b"nokey", b"x2", b"k2", b""]
def meta_case(idx):
    doc = META_DOCS[idx]; v = []; case_d = dict(src=doc.decode("latin-1"))
    for op, nm in ((0, "has_metadata"), (1, "metadata_keys")):
        r = [mmd.meta(doc, op, fam=f) for f in (0, 1, 2)]
        if len(set(r)) != 1: v.append(("entry:meta-differs:" + nm, "%s: string/DString/engine variants return %r for %r" % (nm, r, doc), case_d))
    for k in KEYS:
        r = [mmd.meta(doc, 2, k, fam=f) for f in (0, 1, 2)]
        if len(set(r)) != 1: v.append(("entry:meta-differs:metavalue_for_key", "metavalue_for_key(%r): variants return %r for %r" % (k, r, doc), case_d)); break
    return (pmap.h64(doc), v, dict(judged=1))

TRANS_DOCS = [b"{{t.txt}}\n", b"a {{w.*}} b {{missing.txt}}\n", b"Title: x\n\n{{t.txt}} {{sub/deep.gif}} {{w.tex}}\n", b"transclude base: sub\n\n{{deep.gif}} {{../t.txt}}\n", b"no markers\n", b"{{TOC}} {{w.*}}{{w.*}}\n"]
def trans_case(idx):
    doc = TRANS_DOCS[idx]; v = []; case_d = dict(src=doc.decode("latin-1"))
    r = [sorted(mmd.manifest(doc, ASSETS.encode(), (ASSETS + "/top.txt").encode(), f)) for f in (0, 1, 2)]
    if not (r[0] == r[1] == r[2]): v.append(("entry:differs:transclusion_manifest", "string/DString/engine variants list %r for %r" % (r, doc), case_d))
    return (pmap.h64(doc), v, dict(judged=1))

def cli_leg(rep, tier):
    """CLI to stdout, with -o, and with -b must equal mmd_d_string_convert_to_data for flag sets the CLI can express"""
    t0 = time.time(); cli = build.build_cli(); srcs = sources(tier)
    srcs = [s for s in srcs if b"{{" not in s][::(41 if tier == "quick" else 7)]
    flagsets = [([], mmd.EXT_DEFAULT), (["-c"], mmd.EXT_COMPAT), (["--nosmart"], mmd.EXT_DEFAULT & ~E["SMART"]), (["-f"], mmd.EXT_DEFAULT | E["COMPLETE"]), (["-s", "--nolabels"], mmd.EXT_DEFAULT | E["SNIPPET"] | E["NO_LABELS"])]
    tmp = tempfile.mkdtemp(prefix="vp-c06cli-", dir="/dev/shm" if os.path.isdir("/dev/shm") else None)
    jobs = []
    for si, doc in enumerate(srcs):
        for fname, fmt in TEXT + [("fodt", 5)]:
            for fl, ext in flagsets[:(2 if tier == "quick" else 5)]:
                jobs.append((si, doc, fname, fmt, fl, ext))
    from concurrent.futures import ThreadPoolExecutor
    def one(j):
        si, doc, fname, fmt, fl, ext = j; out = []
        sub = os.path.join(tmp, "j%d_%s_%d" % (si, fname, ext)); os.makedirs(sub, exist_ok=True)
        inp = os.path.join(sub, "in.txt"); open(inp, "wb").write(doc)
        case_d = dict(src=doc[:300].decode("latin-1"), format=fname, flags=fl)
        ref = None
        a = subprocess.run([cli] + fl + ["-t", fname], input=doc, capture_output=True).stdout
        b = subprocess.run([cli] + fl + ["-t", fname, inp], capture_output=True, cwd=sub).stdout
        o = os.path.join(sub, "out.bin"); subprocess.run([cli] + fl + ["-t", fname, "-o", o, inp], capture_output=True, cwd=sub)
        c = open(o, "rb").read() if os.path.exists(o) else None
        subprocess.run([cli] + fl + ["-t", fname, "-b", "in.txt"], capture_output=True, cwd=sub)
        bf = [f for f in os.listdir(sub) if f.startswith("in.") and f != "in.txt"]
        d = open(os.path.join(sub, bf[0]), "rb").read() if bf else None
        # batch mode with a path that has a directory part (relative and absolute): the result belongs next to the source
        deep = os.path.join(sub, "docs", "part"); os.makedirs(deep, exist_ok=True); open(os.path.join(deep, "paper.txt"), "wb").write(doc)
        def batch_out(arg):
            for f in os.listdir(deep):
                if f != "paper.txt": os.unlink(os.path.join(deep, f))
            subprocess.run([cli] + fl + ["-t", fname, "-b", arg], capture_output=True, cwd=sub)
            got = [f for f in os.listdir(deep) if f.startswith("paper.") and f != "paper.txt"]
            return open(os.path.join(deep, got[0]), "rb").read() if got else None
        d_rel = batch_out("docs/part/paper.txt"); d_abs = batch_out(os.path.join(deep, "paper.txt"))
        outs = {"stdin->stdout": a, "file->stdout": b, "-o": c, "-b": d, "-b dir/file": d_rel, "-b /abs/dir/file": d_abs}
        for nm, x in outs.items():
            if x is None: out.append(("entry:no-result:cli %s:%s" % (nm, "text" if fname != "fodt" else fname), "CLI %s wrote nothing for -t %s %s" % (nm, fname, " ".join(fl)), case_d))
            elif x != a: out.append(("entry:differs:cli %s:%s" % (nm, "text" if fname != "fodt" else fname), "CLI %s differs from stdin->stdout for -t %s %s" % (nm, fname, " ".join(fl)), case_d))
        shutil.rmtree(sub, ignore_errors=True)
        return (a, out, (doc, fmt, ext, fname, fl))
    results = []
    with ThreadPoolExecutor(16) as ex:
        for a, vs, key in ex.map(one, jobs):
            for sig, det, c in vs: rep.add_violation(sig, det, c, replay=dict(kind="cli"))
            results.append((a, key))
    # compare CLI output with the library in-process (time pinned does not matter for text formats)
    mmd.so_path()
    for a, (doc, fmt, ext, fname, fl) in results:
        mmd.rng_fresh()
        lib = mmd.convert_to_data(doc, ext, fmt, 0, None, 1)
        # the CLI applies mmd header/footer and transclusion first; sources here have none
        if lib != a and b"@" not in doc:        # e-mail autolinks are obfuscated with the process-global generator (history: C05)
            rep.add_violation("entry:differs:cli-vs-library:%s" % ("text" if fname != "fodt" else fname), "CLI -t %s %s differs from mmd_d_string_convert_to_data" % (fname, " ".join(fl)),
                              dict(src=doc[:300].decode("latin-1"), format=fname, flags=fl), replay=dict(kind="cli"))
    # the language option: -l CODE must select what the library's language argument selects
    LDOC = b"\"double\" 'single' text[^f] cite[#c] term[?g]\n\n[^f]: n\n[#c]: C\n[?g]: G\n"
    for li, code in enumerate(["en", "es", "de", "fr", "nl", "sv", "he"]):
        for fname, fmt in (("html", 0), ("latex", 2), ("fodt", 5)):
            a = subprocess.run([cli, "-l", code, "-t", fname], input=LDOC, capture_output=True).stdout
            mmd.rng_fresh(); lib = mmd.convert_to_data(LDOC, mmd.EXT_DEFAULT, fmt, li, None, 1)
            if a != lib:
                rep.add_violation("entry:differs:cli-language-option:%s" % code, "CLI -l %s -t %s differs from the library called with language %d" % (code, fname, li), dict(src=LDOC.decode(), format=fname, flags=["-l", code]), replay=dict(kind="cli"))
    # packaged formats: -o FILE and stdout carry the same kind of result (one archive with the same members); content bytes vary with time stamps and identifiers and are judged by C09
    import zipfile, io
    PDOC = b"Title: P\nCSS: a.css\n\n# H\n\ntext ![a](i.png) more\n"
    psub = os.path.join(tmp, "pack"); os.makedirs(psub, exist_ok=True); open(os.path.join(psub, "in.txt"), "wb").write(PDOC)
    for f in ("i.png", "a.css"): shutil.copy(os.path.join(core.VERIF, "fixtures", "assets", f), psub)
    def members(data):
        try: return sorted(re.sub(r"[0-9a-f]{8}(-[0-9a-f]{4}){3}-[0-9a-f]{12}", "<id>", n) for n in zipfile.ZipFile(io.BytesIO(data)).namelist())      # stored assets get a fresh identifier per run
        except Exception: return None
    npack = 0
    for fname in ("epub", "odt", "bundlezip", "bundle", "itmz"):
        npack += 1; case_d = dict(src=PDOC.decode(), format=fname, flags=["-o"])
        a = subprocess.run([cli, "-t", fname, "in.txt"], capture_output=True, cwd=psub).stdout
        o = os.path.join(psub, "out_" + fname); subprocess.run([cli, "-t", fname, "-o", o, "in.txt"], capture_output=True, cwd=psub)
        ma = members(a)
        if ma is None: rep.add_violation("entry:cli-packaged-stdout-not-an-archive:" + fname, "CLI -t %s to stdout is not a ZIP archive" % fname, case_d, replay=dict(kind="cli")); continue
        if not os.path.isfile(o): rep.add_violation("entry:differs:cli -o:packaged:" + fname, "CLI -t %s -o FILE did not write one regular file (%s)" % (fname, "a directory" if os.path.isdir(o) else "nothing"), case_d, replay=dict(kind="cli")); continue
        mo = members(open(o, "rb").read())
        if mo != ma: rep.add_violation("entry:differs:cli -o:packaged:" + fname, "CLI -t %s -o FILE holds members %r, stdout holds %r" % (fname, mo, ma), case_d, replay=dict(kind="cli"))
    shutil.rmtree(tmp, ignore_errors=True)
    rep.add_level("cli-packaged", npack, npack, True, 0.0, npack, "CLI -t {epub, odt, bundlezip, bundle, itmz}: -o FILE is one regular file holding the same archive members as stdout")
    rep.add_level("cli", len(jobs) * 4, len(jobs) * 4, True, time.time() - t0, len(jobs), "CLI stdin->stdout, file->stdout, -o, -b (bare name, relative and absolute path with directories) and the library on a sub-grid of sources x text formats x flag sets")

def run(tier):
    rep = core.Report("C06", tier, "exploration")
    rep.rule = ("grid: sources (every line fragment alone and in ordered pairs, macro fragments, inline fragment pairs, the block set, the repository's own test documents) x all 13 formats x 6 extension sets x "
                "{mmd_string_, mmd_d_string_, mmd_engine_} x {convert, convert_to_data, convert_to_file} plus mmd_engine_convert asked a second time / after other calls on the same engine; the process-global generator is put back into its fresh state before every variant so that entry points, not history, are judged; "
                "text formats: byte equality; packaged formats: member-by-member equality after normalising uuids/dates; every to_file variant must leave a non-empty file; metadata functions across the three families; CLI legs on a sub-grid")
    rep.assumptions = ["sources for the CLI legs carry no transclusion markers nor mmd header/footer keys"]
    mmd.so_path(); dl = core.deadline_s(tier)
    srcs = sources(tier)
    case, n = make_case(srcs)
    res = pmap.pmap(n, case, init_fn=mmd.init_worker, deadline_s=dl * 0.7)
    pmap.fold(rep, "api-variants", n, res, "%d sources x 13 formats x 6 extension sets x 9 API variants" % len(srcs))
    LANGDOCS = [b"She said \"hello\" and 'goodbye' -- twice... it's ''alt''[^n]\n\n[^n]: A \"quoted\" note.\n", b"# Heading\n\n\"q\" text\n\n| t |\n|---|\n| c |\n[Caption \"c\"]\n\n![fig \"f\"](f.png)\n\n[#c]: Cite\n\n[#c] [?g]\n\n[?g]: gloss\n",
                b"Title: \"T\"\n\n\"body\" 'x'\n", b"Title: T\nlanguage: fr\n\n\"meta says french\"\n", b"Title: T\nquotes language: german\n\n\"meta says german\"\n"]
    case, n = make_case(LANGDOCS, langs=(0, 1, 2, 3, 4, 5, 6))
    res = pmap.pmap(n, case, init_fn=mmd.init_worker, deadline_s=dl * 0.8)
    pmap.fold(rep, "language-axis", n, res, "%d quote/localisation documents x 13 formats x 6 extension sets x 7 languages x 9 API variants" % len(LANGDOCS))
    res = pmap.pmap(len(META_DOCS), meta_case, workers=4)
    pmap.fold(rep, "metadata-families", len(META_DOCS), res, "has_metadata / metadata_keys / metavalue_for_key across the three API families")
    res = pmap.pmap(len(TRANS_DOCS), trans_case, workers=2)
    pmap.fold(rep, "manifest-families", len(TRANS_DOCS), res, "mmd_string_/mmd_d_string_/mmd_engine_transclusion_manifest on documents with plain, wildcard, nested, missing and base-relative markers")
    cli_leg(rep, tier)
    rep.add_sample(dict(src=srcs[5].decode("latin-1"), variants=9, formats=13))
    rep.add_sample(dict(src=srcs[len(srcs) // 2][:200].decode("latin-1")))
    import glob
    for d in glob.glob(os.path.join("/dev/shm" if os.path.isdir("/dev/shm") else tempfile.gettempdir(), "vp-c06-%d-*" % os.getpid())): shutil.rmtree(d, ignore_errors=True)      # scratch folders of this run's workers
    return rep.finish()

def replay(rec):
    print(rec["cases"][0]); return 1
def prepare():
    mmd.so_path(); build.build_cli()

META = dict(level="exploration", engine="E5",
    technique="exhaustive grid over sources x formats x extension sets x the nine API variants (+ CLI modes), differential comparison of their results",
    text="For every source in the set, every format and six extension sets, the C-string, DString and engine variants of convert, convert-to-data and convert-to-file are all executed and compared (bytes for text formats, archive members for packages); each to-file variant must write; the metadata query families are compared; the real CLI's four output modes are compared with one another and with the library on a sub-grid.",
    note="uuids and dates inside packages are normalised before comparison; the Knuth generator is re-seeded before every variant (history dependence is C05's subject)")
