"""C18 token pool protocol (E2: BFS over well-bracketed histories on the real pool, canonical state = pool statics)."""
import os, subprocess, time, re
from concurrent.futures import ThreadPoolExecutor
from vp import build, core

OPS = "iskebfhcmdx"
NAMES = dict(i="init", e="convert to EPUB with stored assets (images, style sheet)", s="convert(small)", k="convert(kitchen sink: headings, definitions, table, notes)", b="convert(1500 tokens, two slabs)", f="fill the slab exactly", h="parse and hold a tree",
             c="inspect held tree", m="metadata queries on the held engine", d="drain", x="free")

def exe():
    return build.link("asan", "c18", ["c18.c"], exclude=("token.c",))
def prepare(): exe()

def legal(hist):
    """model of the protocol: which next ops keep the history well-bracketed"""
    count = exists = held = 0
    for o in hist:
        if o == "i": count += 1; exists = 1
        elif o == "h": held = 1
        elif o == "d":
            count -= 1
            if count == 0: held = 0
        elif o == "x": exists = 0
    out = []
    for o in OPS:
        if o == "i": out.append(o)
        elif o in "skebf" and count > 0: out.append(o)
        elif o == "h" and count > 0 and not held: out.append(o)
        elif o in "cm" and held: out.append(o)
        elif o == "d" and count > 0: out.append(o)
        elif o == "x" and count == 0 and exists: out.append(o)
    return out

def run_batch(x, hists):
    r = subprocess.run([x], input="\n".join(hists).encode() + b"\n", capture_output=True, env=core.driver_env())
    res = {}
    for ln in r.stdout.decode(errors="replace").splitlines():
        parts = ln.split(" ", 2)
        if len(parts) >= 2: res[parts[0]] = (parts[1], parts[2] if len(parts) > 2 else "")
    return res, r.stderr.decode(errors="replace")

def run(tier):
    rep = core.Report("C18", tier, "model_checking")
    rep.rule = ("breadth-first search over well-bracketed histories of {init, convert small, convert to EPUB with stored assets, convert 1500 tokens (two slabs), fill slab exactly, hold tree, inspect, drain, free}; "
                "each history is executed from a fresh process on the real pool under ASan; state key = (use count, pool exists, slab count, room left in the current slab, tree held) read from "
                "the pool's own statics; only new keys are expanded (equal keys have equal futures: nothing else survives in the pool); invariants on every transition")
    rep.assumptions = ["histories are well-bracketed by construction (the protocol's precondition)"]
    depth = 9 if tier == "quick" else 14
    full_depth = 6 if tier == "quick" else 8     # below this depth every history is expanded, without state merging
    x = exe(); t0 = time.time(); dl = core.deadline_s(tier)
    seen, frontier, states, trans, lvl = {"": "initial"}, [""], 1, 0, 0
    keys = {"initial"}
    complete = True; partial = None
    while frontier and lvl < depth:
        lvl += 1
        cand = [h + o for h in frontier for o in legal(h)]
        outs = []; cut = None
        for lo in range(0, len(cand), 16000):          # slices, so that the time limit is honoured inside a level as well
            if time.time() - t0 > dl * 0.8: cut = lo; break
            part = cand[lo:lo + 16000]
            nb = max(1, min(16, len(part) // 8 + 1))
            batches = [part[i::nb] for i in range(nb)]
            with ThreadPoolExecutor(nb) as ex:
                outs += list(ex.map(lambda b: run_batch(x, b), batches))
        if cut is not None:
            complete = False; partial = (lvl, cut, len(cand)); cand = cand[:cut]
        nxt = []
        for res, err in outs:
            for h, (kind, rest) in res.items():
                trans += 1
                pretty = [NAMES[c] for c in h]
                if kind == "OK":
                    if rest not in keys or lvl < full_depth:
                        if rest not in keys: states += 1
                        keys.add(rest); nxt.append(h)
                        if len(rep.samples) < 8 and (states % 7 == 1): rep.add_sample(dict(history=pretty, state=rest))
                elif kind == "VIOL":
                    sig, _, det = rest.partition(" ")
                    rep.add_violation(sig, det, dict(history=pretty, ops=h), replay=dict(kind="c18", ops=h))
                else:
                    sig = core.sanitizer_signature(err, rest) if err else "crash:" + rest
                    rep.add_violation(sig, rest + " :: " + err[:1200], dict(history=pretty, ops=h), replay=dict(kind="c18", ops=h))
        missing = set(cand) - set().union(*[set(r.keys()) for r, _ in outs])
        if missing:
            rep.internal_errors.append("no result for %d histories, e.g. %s" % (len(missing), sorted(missing)[0]))
        frontier = sorted(nxt)
        if not complete: break
        if time.time() - t0 > dl * 0.8 and frontier and lvl < depth:
            complete = False; break
    rep.states, rep.transitions, rep.traces = states, trans, trans
    rep.add_level("bfs-depth%d" % lvl, trans, trans, complete, time.time() - t0, states,
                  "well-bracketed pool histories: every history up to depth %d, beyond that only new pool states expanded, up to depth %d%s" % (min(full_depth, lvl if complete else (partial[0] - 1 if partial else lvl)), lvl,
                  (" (time limit inside depth %d after %d of %d histories: complete to depth %d)" % (partial + (partial[0] - 1,)) if partial else "")), depth_reached=lvl, frontier_left=len(frontier))
    return rep.finish()

def replay(rec):
    ops = rec["replay"]["ops"]
    res, err = run_batch(exe(), [ops])
    print(res, err)
    return 0 if res.get(ops, ("?",))[0] == "OK" else 1

META = dict(level="model_checking", engine="E2",
    technique="explicit-state breadth-first search over well-bracketed call histories executed on the real pool (fresh process per history, ASan), deduplicated on the pool's own state",
    text="Every well-bracketed history up to the stated depth - nested init/drain, re-initialisation after free, conversions spanning two slabs, a slab filled exactly, trees held across inner drains - is executed on the implementation; after each step the pool's counters and slab list are compared with the protocol model, held trees are checksummed until the outermost drain (ASan faults on a slab released early) and every conversion's bytes are compared with fresh single use.",
    note="token.c is compiled into the harness translation unit to read its statics; the model is the 10-line bracket counter")
