"""C13 transclusion terminates on any include graph and substitutes exactly (E5 over include graphs, reference = recursive substitution)."""
import os, itertools, shutil, tempfile
from vp import core, mmd, pmap

NAMES = ["a.txt", "b.txt", "c.txt", "d.txt"]
FIXED = {"w.html": b"W-html\n", "w.tex": b"W-tex\n", "w.txt": b"W-txt\n", "w.fodt": b"W-fodt\n",
         "t.txt": b"T-plain\n", "sub/s.txt": b"S-start {{t.txt}} S-end\n", "base/x.txt": b"X-in-base\n", "x.txt": b"X-top\n",
         "m.txt": b"Title: M\nAuthor: me\n\nM-body {{t.txt}}\n", "empty.txt": b"", "onlymeta.txt": b"Title: M\nAuthor: me\n", "tb.txt": b"transclude base: base\n\nTB-body {{x.txt}}\n",
         # files whose names have no extension, with a relative transclude base (top level and in a sub-folder)
         "tbx": b"transclude base: base\n\nTBX-body {{x.txt}}\n", "sub/tbn": b"transclude base: base\n\nSTB-body {{y.txt}}\n", "sub/base/y.txt": b"Y-in-sub-base\n", "NOEXT": b"N-plain {{t.txt}}\n"}
# include targets that are symbolic links to regular files (the reference sees the target's content)
LINKS = {"lnk.txt": "t.txt", "sub/slink.txt": "../x.txt"}
FIXED["lnk.txt"] = FIXED["t.txt"]; FIXED["sub/slink.txt"] = FIXED["x.txt"]
def make_links(d):
    for name, target in LINKS.items():
        p = os.path.join(d, name)
        try: os.unlink(p)
        except OSError: pass
        os.symlink(target, p)
FORMATS = [("html", 0), ("latex", 2), ("fodt", 5), ("mmd", 11)]
WILD = {0: ".html", 12: ".html", 1: ".html", 2: ".tex", 3: ".tex", 4: ".tex", 5: ".fodt", 6: ".fodt"}

def targets(n):
    return NAMES[:n] + ["missing.txt", "TOC", "w.*", "sub/s.txt", "m.txt", "tb.txt", "ABS:t.txt", "empty.txt", "tbx", "sub/tbn", "NOEXT", "lnk.txt", "sub/slink.txt"]

def file_body(i, marks, root):
    s = b"F%d-start\n\n" % i
    for m in marks:
        name = (root + "/" + m[4:]) if m.startswith("ABS:") else m
        s += b"{{" + name.encode() + b"}}\n\n"
    return s + b"F%d-end\n" % i

def meta_split(text):
    """(metadata end offset, transclude base or None) by construction of our files"""
    if text.startswith(b"Title: M\nAuthor: me\n"): return len(b"Title: M\nAuthor: me\n"), None
    if text.startswith(b"transclude base: base\n"): return len(b"transclude base: base\n"), b"base"
    return 0, None

class Ref:
    def __init__(self, files, fmt): self.files, self.fmt = files, fmt; self.manifest = []; self.cyclic = False; self.bound = 0
    def expand(self, text, search_folder, source_path, stack):
        off, base = meta_split(text)
        if base: search_folder = os.path.dirname(source_path) + "/" + base.decode() + "/"
        out = text[:off]; pos = off
        while True:
            i = text.find(b"{{", pos)
            if i < 0: break
            j = text.find(b"}}", i)
            if j < 0: break
            name = text[i + 2:j].decode()
            if len(name) + 2 >= 1000 or name == "TOC":
                out += text[pos:i + 2]; pos = i + 2; continue
            path = name if name.startswith("/") else search_folder + name
            if name.endswith(".*") and self.fmt != 11: path = path[:-2] + WILD.get(self.fmt, ".txt")
            if path in stack:
                self.cyclic = True; out += text[pos:i + 2]; pos = i + 2; continue
            if path not in self.manifest: self.manifest.append(path)
            if path not in self.files:
                out += text[pos:i + 2]; pos = i + 2; continue
            sub = self.expand(self.files[path], search_folder, path, stack + [path])
            moff, _ = meta_split(self.files[path])
            out += text[pos:i] + sub[moff:]; pos = j + 2
        return out + text[pos:]

def graph_cases(tier):
    out = []
    def opts(n, maxm):
        T = targets(n); o = [()]
        o += [(t,) for t in T]
        if maxm >= 2: o += [(t, u) for t in T for u in T]
        return o
    for combo in itertools.product(opts(2, 2), repeat=2): out.append(combo)
    for combo in itertools.product(opts(3, 1), repeat=3): out.append(combo)
    if tier == "quick":
        for combo in itertools.product(opts(3, 2)[::3], opts(3, 1), opts(3, 1)): out.append(combo)
    else:
        for combo in itertools.product(opts(3, 2), opts(3, 1), opts(3, 1)): out.append(combo)
        for combo in itertools.product(opts(3, 2)[::2], opts(3, 2)[::5], opts(3, 1)): out.append(combo)
        for combo in itertools.product(opts(4, 1), repeat=4): out.append(combo)
    return out

_dir = None
def worker_init():
    global _dir
    base = "/dev/shm" if os.path.isdir("/dev/shm") else tempfile.gettempdir()
    _dir = tempfile.mkdtemp(prefix="vp-c13-%d-%d-" % (os.getppid(), os.getpid()), dir=base)
    for k, v in FIXED.items():
        p = os.path.join(_dir, k); os.makedirs(os.path.dirname(p), exist_ok=True); open(p, "wb").write(v)
    make_links(_dir)
    import atexit; atexit.register(lambda: shutil.rmtree(_dir, ignore_errors=True))

def make_case(graphs, FORMATS=FORMATS):
    def case(idx):
        fi = idx % len(FORMATS); g = graphs[idx // len(FORMATS)]; fname, fmt = FORMATS[fi]
        if _dir is None: worker_init()
        files = {}
        for i, marks in enumerate(g):
            body = file_body(i, marks, _dir)
            p = os.path.join(_dir, NAMES[i]); open(p, "wb").write(body); files[p] = body
        for i in range(len(g), 4):
            try: os.unlink(os.path.join(_dir, NAMES[i]))
            except OSError: pass
        for k, v in FIXED.items(): files[os.path.join(_dir, k)] = v
        top = os.path.join(_dir, "a.txt")
        r = Ref(files, fmt)
        exp = r.expand(files[top], _dir + "/", top, [])
        got, man = mmd.transclude(files[top], _dir.encode(), top.encode(), fmt)
        case_d = dict(files={NAMES[i]: file_body(i, m, "<dir>").decode() for i, m in enumerate(g)}, format=fname)
        v = []
        total = sum(len(x) for x in files.values())
        if r.cyclic:
            if len(got) > 64 * total:
                v.append(("transclude:unbounded-output", "output of %d bytes for %d bytes of files on a cyclic graph" % (len(got), total), case_d))
        elif got != exp:
            v.append(("transclude:substitution-differs:" + fname, "result %r, reference %r" % (got.replace(_dir.encode(), b"<dir>"), exp.replace(_dir.encode(), b"<dir>")), case_d))
        if len(man) != len(set(man)):
            v.append(("transclude:manifest-duplicate", "manifest lists a file twice: %r" % [m.replace(_dir, "<dir>") for m in man], case_d))
        elif not r.cyclic and sorted(man) != sorted(r.manifest):
            v.append(("transclude:manifest-differs", "manifest %r, expected %r" % (sorted(m.replace(_dir, "<dir>") for m in man), sorted(m.replace(_dir, "<dir>") for m in r.manifest)), case_d))
        # the public manifest entry point must list the same files as the transclusion itself
        if not r.cyclic:
            man_api = mmd.manifest(files[top], _dir.encode(), top.encode())
            rh = Ref(files, 0); rh.expand(files[top], _dir + "/", top, [])          # the manifest entry point has no format argument: wildcards resolve as for HTML
            if sorted(set(man_api)) != sorted(rh.manifest):
                v.append(("transclude:manifest-api-differs", "mmd_string_transclusion_manifest lists %r, expected %r" % (sorted(m.replace(_dir, "<dir>") for m in man_api), sorted(m.replace(_dir, "<dir>") for m in rh.manifest)), case_d))
        # the same top-level file with its own 'transclude base' (markers then resolve inside <dir>/base/)
        if fi == 3:
            body2 = b"transclude base: base\n\n" + files[top]; open(top, "wb").write(body2); files2 = dict(files); files2[top] = body2
            r2 = Ref(files2, fmt); exp2 = r2.expand(body2, _dir + "/", top, [])
            got2, man2 = mmd.transclude(body2, _dir.encode(), top.encode(), fmt)
            if not r2.cyclic:
                if got2 != exp2: v.append(("transclude:substitution-differs:top-level-transclude-base", "result %r, reference %r" % (got2.replace(_dir.encode(), b"<dir>"), exp2.replace(_dir.encode(), b"<dir>")), case_d))
                man3 = mmd.manifest(body2, _dir.encode(), top.encode())
                rh2 = Ref(files2, 0); rh2.expand(body2, _dir + "/", top, [])
                if sorted(set(man3)) != sorted(rh2.manifest) or sorted(set(man2)) != sorted(r2.manifest):
                    v.append(("transclude:manifest-differs:top-level-transclude-base", "manifest API %r, transclusion %r, expected %r" % (sorted(m.replace(_dir, "<dir>") for m in man3), sorted(m.replace(_dir, "<dir>") for m in man2), sorted(m.replace(_dir, "<dir>") for m in r2.manifest)), case_d))
            open(top, "wb").write(files[top])
        return (pmap.h64(repr(g).encode() + bytes([fi])), v, dict(judged=1, cyclic=1 if r.cyclic else 0))
    return case

def marker_len_case():
    def case(idx):
        n = (10, 995, 996, 997, 998, 999, 1000, 1001, 1100, 5000)[idx]
        if _dir is None: worker_init()
        src = b"pre {{" + b"f" * n + b"}} post {{t.txt}}\n"
        top = os.path.join(_dir, "a.txt"); open(top, "wb").write(src)
        got, man = mmd.transclude(src, _dir.encode(), top.encode(), 0)
        exp = b"pre {{" + b"f" * n + b"}} post T-plain\n\n"
        v = []
        if got != exp: v.append(("transclude:long-marker", "marker of %d bytes: result %r..." % (n, got[-40:]), dict(marker_len=n)))
        # an opener that is never closed, n bytes before a genuine marker (the first "}}" after it belongs to that marker), alone and twice
        for shape, src2 in (("unclosed-opener", b"pre {{ " + b"g" * n + b" mid {{t.txt}} post\n"), ("two-unclosed-openers", b"{{" + b"h" * n + b" {{ " + b"i" * 7 + b" {{t.txt}}{{t.txt}}\n")):
            open(top, "wb").write(src2)
            got2, man2 = mmd.transclude(src2, _dir.encode(), top.encode(), 0)
            exp2 = src2.replace(b"{{t.txt}}", b"T-plain\n")
            if got2 != exp2: v.append(("transclude:%s-before-marker" % shape, "unclosed '{{' %d bytes before a genuine marker: result %r..." % (n, got2[-60:]), dict(marker_len=n)))
            if not any(m.endswith("t.txt") for m in (man2 or [])): v.append(("transclude:%s-before-marker:manifest" % shape, "the included file is missing from the manifest %r" % (man2,), dict(marker_len=n)))
        return (n, v, dict(judged=3))
    return case, 10

def long_path_case():
    """folders of 100..3000 bytes (nested 200-character components): search path and relative transclude base"""
    LENS = (100, 500, 900, 1000, 1020, 1030, 1100, 1500, 2000, 3000)
    def case(idx):
        if _dir is None: worker_init()
        n = LENS[idx]; comps = []; left = n
        while left > 0: k = min(200, left); comps.append("d" * k); left -= k + 1
        deep = os.path.join(_dir, "lp%d" % idx, *comps); os.makedirs(os.path.join(deep, "base"), exist_ok=True)
        open(os.path.join(deep, "inc.txt"), "wb").write(b"INC-text\n"); open(os.path.join(deep, "base", "b.txt"), "wb").write(b"BASE-text\n")
        top = os.path.join(deep, "top.txt"); v = []
        for shape, src, exp, wantman in (("search-path", b"pre {{inc.txt}} post\n", b"pre INC-text\n post\n", "inc.txt"), ("transclude-base", b"transclude base: base\n\npre {{b.txt}} post\n", b"transclude base: base\n\npre BASE-text\n post\n", "base/b.txt")):
            open(top, "wb").write(src)
            got, man = mmd.transclude(src, deep.encode(), top.encode(), 0)
            if got != exp: v.append(("transclude:long-folder:%s" % shape, "folder of %d bytes: result %r" % (len(deep), got[-60:]), dict(folder_len=len(deep))))
            elif not any(m.endswith(wantman) and os.path.exists(m) for m in man): v.append(("transclude:long-folder:%s:manifest" % shape, "folder of %d bytes: manifest %r" % (len(deep), [m[-40:] for m in man]), dict(folder_len=len(deep))))
        shutil.rmtree(os.path.join(_dir, "lp%d" % idx), ignore_errors=True)
        return (n, v, dict(judged=2))
    return case, len(LENS)

def cli_leg(rep, tier):
    """the command-line tool: `multimarkdown -t mmd a.txt` prints the transcluded text; main.c resolves the folder and the absolute path itself"""
    import subprocess, time
    from concurrent.futures import ThreadPoolExecutor
    from vp import build
    t0 = time.time(); cli = build.build_cli()
    graphs = graph_cases("quick")[::(23 if tier == "quick" else 5)]
    base = tempfile.mkdtemp(prefix="vp-c13cli-", dir="/dev/shm" if os.path.isdir("/dev/shm") else None)
    def one(gi):
        g = graphs[gi]; d = os.path.join(base, "g%d" % gi); os.makedirs(os.path.join(d, "sub")); os.makedirs(os.path.join(d, "base"))
        files = {}
        for k, v in FIXED.items(): os.makedirs(os.path.dirname(os.path.join(d, k)), exist_ok=True); open(os.path.join(d, k), "wb").write(v); files[os.path.join(d, k)] = v
        make_links(d)
        for i, marks in enumerate(g):
            body = file_body(i, marks, d); open(os.path.join(d, NAMES[i]), "wb").write(body); files[os.path.join(d, NAMES[i])] = body
        top = os.path.join(d, "a.txt"); out = []
        for fname, fmt in (("mmd", 11), ("html", 0)):
            r = Ref(files, fmt); exp = r.expand(files[top], d + "/", top, [])
            try:
                got = subprocess.run([cli, "-t", fname, top], capture_output=True, timeout=30)
            except subprocess.TimeoutExpired:
                out.append(("transclude:cli-hang", "multimarkdown -t %s did not finish within 30 s" % fname, dict(files={NAMES[i]: file_body(i, m, "<dir>").decode() for i, m in enumerate(g)}))); continue
            if got.returncode < 0:
                out.append(("transclude:cli-crash", "multimarkdown -t %s died with signal %d" % (fname, -got.returncode), dict(files={NAMES[i]: file_body(i, m, "<dir>").decode() for i, m in enumerate(g)}))); continue
            if r.cyclic: continue
            want = exp if fmt == 11 else mmd.convert(exp, mmd.EXT_DEFAULT, 0)
            have = got.stdout
            if fmt == 11: have = have[:-1] if have.endswith(b"\n") and not want.endswith(b"\n\n") and have == want + b"\n" else have
            if have != want and have != want + b"\n":
                out.append(("transclude:cli-differs:" + fname, "multimarkdown -t %s a.txt gives %r, reference %r" % (fname, have.replace(d.encode(), b"<dir>")[:300], want.replace(d.encode(), b"<dir>")[:300]),
                            dict(files={NAMES[i]: file_body(i, m, "<dir>").decode() for i, m in enumerate(g)})))
        shutil.rmtree(d, ignore_errors=True)
        return out
    n = 0
    with ThreadPoolExecutor(16) as ex:
        for vs in ex.map(one, range(len(graphs))):
            n += 2
            for sig, det, case in vs: rep.add_violation(sig, det, case, replay=dict(kind="cli"))
    # batch mode over documents in different folders: each resolves its markers in its own folder (2 and 3 documents, every order)
    import itertools
    bd = os.path.join(base, "batch"); names = ["one", "two", "three"]
    for nm in names:
        os.makedirs(os.path.join(bd, nm)); open(os.path.join(bd, nm, "inc.txt"), "wb").write(b"INC-of-" + nm.encode() + b"\n")
        open(os.path.join(bd, nm, "doc.txt"), "wb").write(b"doc " + nm.encode() + b" {{inc.txt}} end\n")
    for k in (2, 3):
        for order in itertools.permutations(names, k):
            for nm in names:
                for f in os.listdir(os.path.join(bd, nm)):
                    if f not in ("inc.txt", "doc.txt"): os.unlink(os.path.join(bd, nm, f))
            subprocess.run([cli, "-b", "-t", "html"] + [os.path.join(bd, nm, "doc.txt") for nm in order], capture_output=True, cwd=base, timeout=60); n += 1
            for nm in order:
                o = os.path.join(bd, nm, "doc.html"); got = open(o, "rb").read() if os.path.exists(o) else b"<no output file>"
                if (b"INC-of-" + nm.encode()) not in got:
                    rep.add_violation("transclude:cli-batch:marker-resolved-in-another-folder", "batch %r: %s/doc.txt rendered as %r" % (order, nm, got[:120]), dict(order=list(order), document=nm), replay=dict(kind="cli"))
    shutil.rmtree(base, ignore_errors=True)
    rep.add_level("cli", n, n, True, time.time() - t0, max(len(graphs), 2), "real CLI -t mmd / -t html on a sub-grid of include graphs (main.c resolves folder and absolute path) and batch mode over 2-3 documents in different folders, every order")

def run(tier):
    rep = core.Report("C13", tier, "exploration")
    rep.rule = ("every include graph over n files whose bodies hold up to m markers drawn from {each file (self-loops and cycles included), a missing file, {{TOC}}, a wildcard name.*, a sub-directory path, "
                "a file with metadata, a file with 'transclude base', an absolute path} x {html, latex, fodt, mmd}; files are materialised in a per-worker tmpfs directory; reference = recursive substitution over the "
                "in-memory file map with the stack of files in progress; acyclic graphs: byte equality and manifest equality; cyclic graphs: termination (watchdog) and bounded size; distinct = distinct (graph, format)")
    mmd.so_path(); dl = core.deadline_s(tier)
    graphs = graph_cases(tier); n = len(graphs) * len(FORMATS)
    res = pmap.pmap(n, make_case(graphs), deadline_s=dl * 0.9, hang_s=30, describe=lambda i: dict(files={NAMES[k]: file_body(k, m, "<dir>").decode() for k, m in enumerate(graphs[i // len(FORMATS)])}, format=FORMATS[i % len(FORMATS)][0]))
    pmap.fold(rep, "include-graphs", n, res, "%d include graphs x 4 formats" % len(graphs))
    # the wildcard extension depends on the format: every format the library knows, on the small graphs that use the wildcard
    ALLF = [("html", 0), ("epub", 1), ("latex", 2), ("beamer", 3), ("memoir", 4), ("fodt", 5), ("odt", 6), ("textbundle", 7), ("bundlezip", 8), ("opml", 9), ("itmz", 10), ("mmd", 11), ("htmlassets", 12)]
    wg = [g for g in graphs if len(g) == 2 and any("w.*" in m for m in g) and sum(len(m) for m in g) <= 2]
    nw = len(wg) * len(ALLF)
    resw = pmap.pmap(nw, make_case(wg, ALLF), deadline_s=dl * 0.2, hang_s=30, describe=lambda i: dict(files={NAMES[k]: file_body(k, m, "<dir>").decode() for k, m in enumerate(wg[i // len(ALLF)])}, format=ALLF[i % len(ALLF)][0]))
    pmap.fold(rep, "wildcard-all-formats", nw, resw, "%d two-file graphs that use the wildcard marker x all 13 formats of the library" % len(wg))
    case, n2 = marker_len_case()
    res = pmap.pmap(n2, case, workers=2)
    case3, n3 = long_path_case()
    res3 = pmap.pmap(n3, case3, workers=4, deadline_s=dl * 0.2)
    pmap.fold(rep, "folder-length", n3, res3, "folders of 100..3000 bytes as search path and under a relative transclude base: substitution and manifest")
    pmap.fold(rep, "marker-length", n2, res, "markers of 10..5000 bytes around the 1000-byte cap")
    cli_leg(rep, tier)
    rep.add_sample(dict(files={"a.txt": "F0-start\n\n{{b.txt}}\n\n{{w.*}}\n\nF0-end\n", "b.txt": "F1-start\n\n{{a.txt}}\n\nF1-end\n"}, format="html", note="2-cycle: must terminate"))
    rep.add_sample(dict(files={"a.txt": "F0-start\n\n{{tb.txt}}\n\nF0-end\n"}, fixed={"tb.txt": FIXED["tb.txt"].decode(), "base/x.txt": FIXED["base/x.txt"].decode()}))
    import glob
    for d in glob.glob(os.path.join("/dev/shm" if os.path.isdir("/dev/shm") else tempfile.gettempdir(), "vp-c13-%d-*" % os.getpid())): shutil.rmtree(d, ignore_errors=True)      # scratch folders of this run's workers
    return rep.finish()

def replay(rec):
    print(rec["cases"][0]); return 1
def prepare():
    from vp import build
    mmd.so_path(); build.build_cli()

META = dict(level="exploration", engine="E5",
    technique="exhaustive enumeration of include graphs (incl. self-loops and cycles) materialised on disk, compared with a recursive-substitution reference; hang watchdog for termination",
    text="Every directed include graph over up to 3-4 files with up to two markers per file, with missing targets, wildcards, sub-directories, metadata, transclude-base overrides and absolute paths, is transcluded by the real library in four formats; acyclic graphs must equal the reference byte for byte and list each referenced file once; cyclic graphs must terminate with bounded output.",
    note="trusted: the 30-line reference; metadata offsets of the fixture files are known by construction")
