"""C08 XML-based outputs are well-formed for every input (E1 over an XML-hostile alphabet in every syntactic position; expat oracle)."""
import io, zipfile, re, os
import xml.parsers.expat as expat
from vp import core, mmd, pmap

def load_alpha(name):
    out = []
    for ln in open(os.path.join(core.VERIF, "alphabets", name + ".txt"), "rb").read().split(b"\n"):
        if not ln or ln.startswith(b";;"): continue
        s = ln.replace(b"\\\\", b"\x00").replace(b"\\n", b"\n").replace(b"\\t", b"\t").replace(b"\\s", b" ").replace(b"\\z", b"").replace(b"\x00", b"\\")
        out.append(s)
    return out

POS = [  # (name, pre, post)
    ("para", b"qa ", b" qb\n"), ("list", b"* qa ", b" qb\n"), ("quote", b"> qa ", b" qb\n"), ("table-cell", b"| h | i |\n|---|---|\n| qa ", b" qb | x |\n"),
    ("heading", b"# qa ", b" qb\n"), ("footnote", b"x[^f]\n\n[^f]: qa ", b" qb\n"), ("definition", b"term\n: qa ", b" qb\n"),
    ("link-text", b"[qa ", b" qb](u)\n"), ("link-url", b"[x](http://h/qa", b"qb)\n"), ("link-title", b"[x](u \"qa ", b" qb\")\n"), ("image-alt", b"![qa ", b" qb](i.png)\n"),
    ("image-title", b"![x](i.png \"qa ", b" qb\")\n"), ("image-url", b"![x](http://h/i.png?qa", b"qb)\n"), ("link-attr", b"[x][y]\n\n[y]: http://u class=\"qa", b"qb\"\n"), ("ref-title", b"[x]\n\n[x]: http://u 'qa ", b" qb'\n"), ("ref-attr", b"![x][y]\n\n[y]: i.png width=\"qa", b"qb\"\n"),
    ("meta-value", b"Title: qa ", b" qb\n\nbody\n"), ("meta-key", b"qa", b"qb: value\n\nbody\n"), ("meta-author", b"Title: t\nAuthor: qa ", b" qb\n\nbody\n"),
    ("fence-info", b"```qa", b"qb\ncode\n```\n"), ("code-block", b"```\nqa ", b" qb\n```\n"), ("code-span", b"a `qa ", b" qb` b\n"), ("indented-code", b"    qa ", b" qb\n"),
    ("table-caption", b"| a |\n|---|\n| b |\n[qa ", b" qb]\n"), ("abbreviation", b"[>qa]: ex ", b" qb\n\nqa\n"), ("glossary", b"[?g]: qa ", b" qb\n\nx[?g]\n"),
    ("citation", b"[#c]: qa ", b" qb\n\nx[#c]\n"), ("math", b"$qa ", b" qb$\n"), ("toc-heading", b"{{TOC}}\n\n# qa ", b" qb\n"), ("setext", b"qa ", b" qb\n===\n"),
]
E = mmd.EXT
EXTS = [("default", mmd.EXT_DEFAULT), ("accept", mmd.EXT_DEFAULT | E["CRITIC_ACCEPT"]), ("reject", mmd.EXT_DEFAULT | E["CRITIC_REJECT"]),
        ("no-critic", E["SMART"] | E["NOTES"]), ("compat", mmd.EXT_COMPAT)]
TEXTUAL = [("opml", 9), ("fodt", 5)]
ARCHIVES = [("itmz", 10), ("odt", 6), ("epub", 1)]
ASSETS = os.path.join(core.VERIF, "fixtures", "assets").encode()

def xml_ok(data):
    p = expat.ParserCreate()
    p.UseForeignDTD(True)
    try:
        p.Parse(data, True); return None
    except expat.ExpatError as e:
        line = data.split(b"\n")[e.lineno - 1] if e.lineno - 1 < data.count(b"\n") + 1 else b""
        return "%s at line %d col %d: %r" % (expat.ErrorString(e.code), e.lineno, e.offset, line[max(0, e.offset - 40):e.offset + 40])

def classify(err):
    m = re.match(r"([a-zA-Z \-]+)", err)
    return re.sub(r"\s+", "-", m.group(1).strip()) if m else "error"

def make_case(alpha, L, formats, archive, POS=POS):
    n = len(alpha)
    def case(idx):
        ei = idx % len(EXTS); idx //= len(EXTS); fi = idx % len(formats); idx //= len(formats); pi = idx % len(POS); idx //= len(POS)
        frs = []
        for _ in range(L): frs.append(alpha[idx % n]); idx //= n
        probe = b"".join(frs[::-1]); pname, pre, post = POS[pi]; fname, fmt = formats[fi]; ename, ext = EXTS[ei]
        if b"\n" in probe and pname in ("meta-value", "meta-key", "meta-author", "heading", "link-url", "fence-info", "setext", "toc-heading", "ref-title", "ref-attr", "table-cell", "table-caption"):
            return (None, [], dict(skipped=1))
        doc = pre + probe + post
        case_d = dict(src=doc.decode("latin-1"), position=pname, format=fname, ext=ext)
        v = []
        if not archive:
            out = mmd.convert_to_data(doc, ext, fmt, 0, ASSETS)       # what the CLI uses; for fodt this adds the document wrapper
            members = [(fname, out)]
        else:
            data = mmd.convert_to_data(doc, ext, fmt, 0, ASSETS)
            try:
                z = zipfile.ZipFile(io.BytesIO(data))
                members = [(nm, z.read(nm)) for nm in z.namelist() if nm.endswith((".xml", ".xhtml", ".opf", ".ncx")) or nm == "mapdata.xml"]
            except Exception as e:
                return (pmap.h64(doc), [("xml:archive-unreadable:" + fname, "cannot open %s archive: %s" % (fname, e), case_d)], dict(judged=1))
        for nm, data in members:
            err = xml_ok(data)
            if err:
                if b"<<}" in probe and pname in ("code-block", "code-span", "fence-info", "indented-code", "math") and nm.split("/")[-1] in ("fodt", "content.xml") and "<<}" in err:
                    sig = "xml:not-well-formed:odf:critic-comment-close-in-verbatim-text"
                else:
                    sig = "xml:not-well-formed:%s:%s:%s" % (nm.split("/")[-1], pname, classify(err))
                v.append((sig, "%s is not well-formed (%s) for %r" % (nm, err, doc), case_d))
        return (pmap.h64(doc + bytes([fi, ei])), v, dict(judged=len(members)))
    return case, n ** L * len(POS) * len(formats) * len(EXTS)

def run(tier):
    rep = core.Report("C08", tier, "exploration")
    rep.rule = ("all sequences up to the level's length over alphabets/xmlhostile.txt (& < > quotes, entities, autolinks/URLs with & and quotes, every CriticMarkup marker, math and comment delimiters, CDATA end, ...) placed between two marker "
                "words in %d syntactic positions (body contexts, link text/URL/title, image alt/title, reference title and attribute, metadata key/value, fence info, code, caption, notes, math) x {opml, fodt} (textual) and "
                "{itmz mapdata.xml, odt members, epub OPF/nav/container/xhtml} (archives, unzipped with Python zipfile) x 5 extension sets; plus a length ladder (one word of 60..4100 bytes in every position) and documents with one empty component; oracle: expat parses every XML member; distinct = distinct (document, format, options)" % len(POS))
    rep.assumptions = ["sources are valid UTF-8 without control characters by construction", "no fragment is a raw HTML tag (raw HTML is passed through by design)", "undefined entities such as &nbsp; in XHTML members are tolerated (expat with a foreign DTD)"]
    mmd.so_path(); dl = core.deadline_s(tier); alpha = load_alpha("xmlhostile")
    plan = [(1, TEXTUAL, False), (2, TEXTUAL, False), (1, ARCHIVES, True)] if tier == "quick" else [(1, TEXTUAL, False), (2, TEXTUAL, False), (1, ARCHIVES, True), (2, ARCHIVES, True), (3, TEXTUAL[:1], False)]
    for L, fmts, arch in plan:
        case, n = make_case(alpha, L, fmts, arch)
        res = pmap.pmap(n, case, init_fn=mmd.init_worker, deadline_s=dl * 0.9)
        pmap.fold(rep, "len%d-%s" % (L, "+".join(f for f, _ in fmts)), n, res, "probe sequences of length %d x %d positions x %s x 5 extension sets" % (L, len(POS), "/".join(f for f, _ in fmts)))
    # length ladder: one plain-word fragment of each length in every position (formatted fragments cross the writers' internal buffer sizes)
    LONG = [b"w" * k for k in (60, 100, 127, 128, 200, 250, 255, 256, 257, 300, 511, 512, 513, 1000, 1023, 1024, 1025, 2047, 2048, 2049, 4100)]
    # the same with multi-byte characters, shifted by 0..3 ASCII bytes so that a byte-count cut anywhere falls inside a character for some entry
    LONG += [pre + ch * k for ch in ("\u00e9".encode(), "\u2020".encode(), "\U0001F600".encode()) for k in (30, 45, 70, 130, 300) for pre in (b"", b"a", b"ab", b"abc")]
    for fmts, arch in ((TEXTUAL, False), (ARCHIVES, True)):
        case, n = make_case(LONG, 1, fmts, arch)
        res = pmap.pmap(n, case, init_fn=mmd.init_worker, deadline_s=dl * 0.9)
        pmap.fold(rep, "length-ladder-%s" % "+".join(f for f, _ in fmts), n, res, "one word of %d lengths/kinds (ASCII 60..4100 bytes around powers of two; runs of 2-, 3- and 4-byte characters at four byte offsets) x %d positions x %s x 5 extension sets" % (len(LONG), len(POS), "/".join(f for f, _ in fmts)))
    # last character: the probe is the last thing in its construct (writers that trim or cut the end of a title, cell or value work on bytes)
    ENDPOS = [(nm + "-end", pre, post.replace(b" qb", b"").replace(b"qb", b"")) for nm, pre, post in POS] + [("closed-heading-end", b"## qa ", b" ##\n"), ("heading-end-then-text", b"# qa ", b"\ntext\n")]
    LAST = [x.encode() for x in ("\u00e0", "\u00e9", "\u00c2", "\u0160", "\u2020", "\u3002", "\U0001F620", "\U0001F600", "\u00a0", "x\u00a0", "\u00e0 ", "\u00e0\t", "&", "<", "\"", "\\")]      # final bytes 0xA0, 0xA9, 0x82, 0x80, ...; a real no-break space; trailing blanks after one
    for fmts, arch in ((TEXTUAL, False), (ARCHIVES, True)):
        case, n = make_case(LAST, 1, fmts, arch, ENDPOS)
        res = pmap.pmap(n, case, init_fn=mmd.init_worker, deadline_s=dl * 0.9)
        pmap.fold(rep, "last-character-%s" % "+".join(f for f, _ in fmts), n, res, "%d characters (2-, 3- and 4-byte, with final bytes 0xA0/0xA9/0x82/0x80, a real no-break space, reserved ASCII) as the LAST character of the construct in %d positions x %s x 5 extension sets" % (len(LAST), len(ENDPOS), "/".join(f for f, _ in fmts)))
    # empty components: every construct with its text, URL, title, label or value left empty
    EMPTY = [b"![alt]()\n", b"![alt](<>)\n", b"![](i.png)\n", b"![]()\n", b"![alt][r]\n\n[r]: <>\n", b"![alt](i.png \"\")\n", b"[text]()\n", b"[](http://u/)\n", b"[text](<>)\n", b"[text](u \"\")\n", b"[t][r]\n\n[r]: <> \"\"\n",
             b"#\n\ntext\n", b"# []\n", b"## ##\n", b"x[^f]\n\n[^f]:\n", b"x[^f]\n\n[^f]: \n", b"[>ab]:\n\nab\n", b"[?g]:\n\n[?g]\n", b"[#c]:\n\n[#c]\n", b"| |\n|-|\n| |\n", b"|a|\n|-|\n[]\n", b"term\n:\n", b"```\n```\n", b"``` \n\n```\n",
             b"Title:\n\nbody\n", b"Title: \nAuthor:\n\nbody\n", b"<>\n", b"<mailto:>\n", b"**** __ ``  ``\n", b"{++++}{----}{~~~>~~}{====}{>><<}\n", b"$$\n", b"\\\\(\\\\)\n", b"[%]\n", b"{{TOC}}\n", b"* \n", b"1. \n", b"> \n", b"[^]\n", b"![alt](i.png width= height=)\n", b"[x](u class=)\n"]
    def empty_case(formats, archive):
        def case(idx):
            ei = idx % len(EXTS); idx //= len(EXTS); fi = idx % len(formats); di = idx // len(formats)
            doc = EMPTY[di]; fname, fmt = formats[fi]; ename, ext = EXTS[ei]; v = []
            case_d = dict(src=doc.decode("latin-1"), position="empty-component", format=fname, ext=ext)
            data = mmd.convert_to_data(doc, ext, fmt, 0, ASSETS)
            members = [(fname, data)]
            if archive:
                try:
                    z = zipfile.ZipFile(io.BytesIO(data)); members = [(nm, z.read(nm)) for nm in z.namelist() if nm.endswith((".xml", ".xhtml", ".opf", ".ncx")) or nm == "mapdata.xml"]
                except Exception as e:
                    return (pmap.h64(doc), [("xml:archive-unreadable:" + fname, "cannot open %s archive: %s" % (fname, e), case_d)], dict(judged=1))
            for nm, d in members:
                err = xml_ok(d)
                if err: v.append(("xml:not-well-formed:%s:empty-component:%s" % (nm.split("/")[-1], classify(err)), "%s is not well-formed (%s) for %r" % (nm, err, doc), case_d))
            return (pmap.h64(doc + bytes([fi, ei])), v, dict(judged=len(members)))
        return case, len(EMPTY) * len(formats) * len(EXTS)
    for fmts, arch in ((TEXTUAL, False), (ARCHIVES, True)):
        case, n = empty_case(fmts, arch)
        res = pmap.pmap(n, case, init_fn=mmd.init_worker, deadline_s=dl * 0.9)
        pmap.fold(rep, "empty-components-%s" % "+".join(f for f, _ in fmts), n, res, "%d documents in which one component (URL, alt, title, label, value, cell, term, fence, mark) is empty x %s x 5 extension sets" % (len(EMPTY), "/".join(f for f, _ in fmts)))
    # localised strings (note titles, back links, quotes): every language x the constructs that print them
    LANGS = ["en", "es", "de", "fr", "nl", "sv", "he"]
    LOCDOC = b"Title: T\nLanguage: %s\n\n\"q\" 'r' text[^f] cite[#c] again[#c] gl[?g] [>ab] [p. 3][#c] [Not cited][#d]\n\n{{TOC}}\n\n# H\n\n![fig](i.png)\n\n[^f]: n\n[#c]: C\n[#d]: D\n[?g]: G\n[>ab]: AB\n"
    def loc_case(idx):
        li = idx % len(LANGS); fi = (idx // len(LANGS)) % 5; via_arg = idx // (len(LANGS) * 5)
        fname, fmt = (TEXTUAL + ARCHIVES)[fi]; v = []
        doc = (LOCDOC % LANGS[li].encode()) if not via_arg else LOCDOC.replace(b"Language: %s\n", b"")
        case_d = dict(src=doc.decode("latin-1"), position="localised-strings", format=fname, language=LANGS[li])
        data = mmd.convert_to_data(doc, mmd.EXT_DEFAULT, fmt, li if via_arg else 0, ASSETS)
        members = [(fname, data)]
        if fi >= len(TEXTUAL):
            try:
                z = zipfile.ZipFile(io.BytesIO(data)); members = [(nm, z.read(nm)) for nm in z.namelist() if nm.endswith((".xml", ".xhtml", ".opf", ".ncx")) or nm == "mapdata.xml"]
            except Exception as e:
                return (pmap.h64(doc), [("xml:archive-unreadable:" + fname, "cannot open %s archive: %s" % (fname, e), case_d)], dict(judged=1))
        for nm, d in members:
            err = xml_ok(d)
            if err: v.append(("xml:not-well-formed:%s:localised-strings:%s" % (nm.split("/")[-1], classify(err)), "%s is not well-formed for language %s (%s)" % (nm, LANGS[li], err), case_d))
        return (pmap.h64(doc + bytes([fi, li, via_arg])), v, dict(judged=len(members)))
    res = pmap.pmap(len(LANGS) * 5 * 2, loc_case, init_fn=mmd.init_worker, deadline_s=dl * 0.9)
    pmap.fold(rep, "localised-strings", len(LANGS) * 5 * 2, res, "a document with every construct that prints localised strings x 7 languages (metadata and language argument) x {opml, fodt, itmz, odt, epub}")
    rep.add_sample(dict(position="link-title", src=(POS[9][1] + b"\"&<" + POS[9][2]).decode("latin-1"), formats=["opml", "fodt", "odt", "epub", "itmz"]))
    rep.add_sample(dict(position="code-block", src=(POS[18][1] + b"<<}" + POS[18][2]).decode("latin-1")))
    return rep.finish()

def replay(rec):
    c = rec["cases"][0]; src = c["src"].encode("latin-1"); fmt = dict(TEXTUAL + ARCHIVES)[c["format"]]
    if c["format"] in dict(TEXTUAL):
        out = mmd.convert(src, c["ext"], fmt); print(out.decode("utf-8", "replace")[-1500:]); print(xml_ok(out))
    return 1
def prepare(): mmd.so_path()

META = dict(level="exploration", engine="E5",
    technique="bounded-exhaustive enumeration of XML-hostile fragments in every syntactic position x XML-producing formats x extension sets; independent XML parser (expat) on every generated member",
    text="Every sequence up to the stated length over the reserved characters and the markers that contain them is placed in each of the positions where document text, URLs, titles, attribute values and metadata reach the output, and every XML document the library produces for it (OPML, flat ODF, iThoughts map, ODT members, EPUB package/navigation/container/content) is parsed by expat.",
    note="trusted: expat, Python zipfile")
