"""C20 document wrapper and metadata never change the body rendering (E5 grid)."""
import itertools, re
from vp import core, mmd, pmap
from vp.blocks import BLOCKS

CONTROL = [b"Base Header Level: 2", b"HTML Header Level: 3", b"LaTeX Header Level: 2", b"Language: de", b"Quotes Language: fr", b"LaTeX Mode: memoir", b"ODF Header Level: 2", b"EPUB Header Level: 2", b"XHTML Header Level: 3"]
OTHER = [b"Title: A title", b"Author: Some One", b"Date: 2020-01-01", b"CSS: style.css", b"HTML Header: <script src=\"x.js\"></script>", b"XHTML Header: <meta name=\"x\"/>",
         b"Keywords: a, b & c", b"my custom key: \"quoted\" <v> & more", b"LaTeX Input: mmd6-article-leader", b"LaTeX Footer: mmd6-article-footer", b"Copyright: 2020 \xc2\xa9 me",
         b"Subtitle: 100% $sure_ #1 {x} ~^\\", b"Affiliation: line one\n    line two", b"latex config: article", b"odf header: <x/>", b"Revision: 1.0", b"Web: http://example.com/?a=1&b=2",
         b"Title: Line one\\\n    line two  \n    line three", b"Email: me@example.com", b"Author: A Person <a.person@example.org>"]
# MultiMarkdown-specific body blocks: everything whose rendering draws on per-document state (counters, labels, the random generator, note lists)
MMDBLOCKS = [b"mail <user@example.com> auto\n\n", b"a [mail](mailto:x@y.org) link\n\n", b"note[^n1] here\n\n[^n1]: the note\n\n", b"cite[#c1] here\n\n[#c1]: the source\n\n",
             b"gloss[?g1] and abbr[>a1]\n\n[?g1]: the term\n[>a1]: the abbreviation\n\n", b"| a | b |\n|---|:-:|\n| c | d |\n[Caption][tl]\n\n", b"![fig](f.png)\n\n", b"math \\\\(x^2\\\\) and $y_1$\n\n",
             b"term\n: definition\n\n", b"{{TOC}}\n\n", b"# Title #\n\nsee [Title][] and [ref][r1]\n\n[r1]: http://example.com/ \"t\" class=c\n\n", b"<div>\nraw *html*\n</div>\n\n",
             b"{++add++} {--del--} {~~a~>b~~} {==hi==}{>>c<<}\n\n", b"\"quoted\" 'single' -- --- ... H~2~O x^2^\n\n", b"inline[^an inline note] and [?(term) inline gloss]\n\n",
             b"variables [%title] [%author] [%my custom key] [%nosuchkey] here\n\n",
             # bodies whose FIRST byte is markup (what precedes the body differs between a bare body and one after a metadata block)
             b"*foo*bar* baz\n\n", b"**foo**bar** baz\n\n", b"_foo_bar_ baz\n\n", b"\"quoted\" first 'single'\n\n", b"'single' first\n\n", b"`code` first\n\n", b"[link](http://u/) first\n\n", b"<x@y.z> first\n\n",
             b"Warning: this looks like a key\nand goes on\n\n", b"Note: short\n\n",
             b"--- dash first\n\n", b"... dots first\n\n", b"^sup^ first ~sub~\n\n", b"{++add++} first\n\n", b"$m$ first\n\n", b"![i](i.png) first\n\n", b"[^n1] note first\n\n[^n1]: n\n\n", b"\\* escaped first\n\n"]
FORMATS = [("html", 0), ("latex", 2), ("beamer", 3), ("memoir", 4)]
EXTS = [mmd.EXT_DEFAULT, mmd.EXT_DEFAULT & ~mmd.EXT["SMART"], mmd.EXT["NOTES"] | mmd.EXT["CRITIC"] | mmd.EXT["NO_LABELS"] | mmd.EXT["PROCESS_HTML"]]
C, S = mmd.EXT["COMPLETE"], mmd.EXT["SNIPPET"]

# other spellings of rendering-control keys (case, blanks and tabs inside the key and before the colon are not significant): variant -> canonical
SPELLINGS = {b"base header level: 2": CONTROL[0], b"BaseHeaderLevel: 2": CONTROL[0], b"Base\tHeader Level: 2": CONTROL[0], b"Base Header Level\t: 2": CONTROL[0], b"Base  Header\t Level : 2": CONTROL[0],
             b"LANGUAGE : de": CONTROL[3], b"Language\t: de": CONTROL[3], b"Quotes\tLanguage: fr": CONTROL[4], b"quoteslanguage:\tfr": CONTROL[4], b"LaTeX\tMode: memoir": CONTROL[5], b"HTML\tHeader\tLevel: 3": CONTROL[1]}

def meta_blocks():
    """(label, block bytes, has_non_control_key, only_unrelated_keys)"""
    out = [("none", b"", False, True)]
    for k in CONTROL: out.append(("control", k + b"\n", False, False))
    for k in SPELLINGS: out.append(("control-spelling", k + b"\n", False, False))
    out.append(("control-all", b"\n".join(CONTROL[:3]) + b"\n", False, False))
    for k in OTHER: out.append(("other", k + b"\n", True, True))
    for a, b in itertools.combinations(range(0, len(OTHER), 3), 2): out.append(("other-pair", OTHER[a] + b"\n" + OTHER[b] + b"\n", True, True))
    out.append(("yaml", b"---\n" + OTHER[0] + b"\n" + OTHER[1] + b"\n---\n", True, True))
    out.append(("other+control", OTHER[0] + b"\n" + CONTROL[0] + b"\n", True, False))
    # the line that ends the block is blank but not empty (tab / spaces)
    for sep in (b"\t", b"    ", b" "):
        out.append(("other-blank-line-with-whitespace", OTHER[0] + b"\n" + sep, True, True)); out.append(("control-blank-line-with-whitespace", CONTROL[0] + b"\n" + sep, False, False))
    return out

def bodies(tier):
    b = [BLOCKS[i] for i in range(len(BLOCKS)) if i not in (17,)]     # '---' right after a metadata block is the YAML fence, not a rule
    out = list(b)
    pairs = list(itertools.product(range(len(b)), repeat=2))
    step = 1
    out += [b[i] + b[j] for i, j in pairs[::step]]
    out.append(b"text[^1] and \"quotes\" -- dash\n\n[^1]: note\n\n# H\n\n| a | b |\n|---|---|\n| c | d |\n\n")
    out += MMDBLOCKS
    out += [m + x for m in MMDBLOCKS for x in (b[0], b[10], b[24])] + [x + m for m in MMDBLOCKS for x in (b[0], b[10], b[24])]
    if tier != "quick": out += [m + n for m in MMDBLOCKS for n in MMDBLOCKS]
    return out

def make_case(metas, bods):
    nm, nb = len(metas), len(bods)
    def case(idx):
        ei = idx % len(EXTS); idx //= len(EXTS); fi = idx % len(FORMATS); idx //= len(FORMATS); mi = idx % nm; bi = idx // nm
        label, mb, noncontrol, unrelated = metas[mi]; body = bods[bi]; fname, f = FORMATS[fi]; ext = EXTS[ei]
        first_line = body.split(b"\n", 1)[0]
        if not mb and re.match(rb"^[A-Za-z0-9][^\n:]*:", first_line): return (None, [], dict(skipped=1))
        doc = (mb + b"\n" + body) if mb else body
        case_d = dict(src=doc.decode("latin-1"), format=fname, ext=ext, meta=label)
        v = []
        snip = mmd.convert(doc, ext | S, f); comp = mmd.convert(doc, ext | C, f); dflt = mmd.convert(doc, ext, f)
        if snip.rstrip(b"\n") not in comp:
            v.append(("wrapper:snippet-not-inside-complete:" + fname, "the snippet rendering is not a contiguous part of the complete rendering", case_d))
        want_complete = noncontrol
        if dflt != (comp if want_complete else snip):
            other = "snippet" if dflt == snip else "complete" if dflt == comp else "neither"
            v.append(("wrapper:default-choice:%s:%s" % (label, fname), "without -f/-s the output is %s, expected %s" % (other, "complete" if want_complete else "snippet"), case_d))
        if label.endswith("blank-line-with-whitespace"):
            # a separator line made of blanks ends the block exactly like an empty line
            ref_doc = mb.rstrip(b" \t") + b"\n" + body
            if mmd.convert(ref_doc, ext | S, f) != snip:
                v.append(("wrapper:whitespace-separator-changes-body:" + fname, "a metadata block ended by a line of blanks renders differently from the same block ended by an empty line", case_d))
        if label == "control-spelling":
            canon = SPELLINGS[mb[:-1]] + b"\n\n" + body
            if mmd.convert(canon, ext | S, f) != snip or mmd.convert(canon, ext, f) != dflt:
                v.append(("wrapper:control-key-spelling-changes-rendering:" + fname, "the control key spelled %r renders differently from %r" % (mb[:-1], SPELLINGS[mb[:-1]]), case_d))
        if unrelated and mb and b"[%" not in body and not re.match(rb"^[A-Za-z0-9][^\n:]*:", first_line):          # variable substitution is a documented channel from metadata into the body
            bare = mmd.convert(body, ext | S, f)
            if bare != snip:
                v.append(("wrapper:unrelated-metadata-changes-body:" + fname, "snippet with metadata block %r differs from snippet of the bare body" % mb, case_d))
        return (pmap.h64(doc + bytes([fi, ei])), v, dict(judged=1))
    return case, nm * nb * len(FORMATS) * len(EXTS)

def run(tier):
    rep = core.Report("C20", tier, "exploration")
    rep.rule = ("grid: bodies (each self-contained block of vp/blocks.py alone and in ordered pairs, plus a notes/table document) plus %d MultiMarkdown-specific blocks (mail autolink, mailto, notes, citation, glossary, abbreviation, captioned table, figure, math, definition list, TOC, cross-references, raw HTML, CriticMarkup, smart typography) alone and combined) x metadata blocks {none, each rendering-control key, each of %d other keys with benign and "
                "reserved-character values, pairs, YAML-fenced, mixed} x {html, latex, beamer, memoir} x 3 extension sets x {default, complete, snippet}; oracles: snippet inside complete; default = complete iff a key "
                "outside the control set is present; snippet with unrelated metadata = snippet of the bare body; distinct = distinct (document, format, options)" % (len(MMDBLOCKS), len(OTHER)))
    rep.assumptions = ["bibtex, mmd header/footer and transclude base are kept out of the default-choice oracle (the statement does not settle them)", "a body that references [%variables] is judged by the wrapper oracles only (substitution is a documented channel)"]
    mmd.so_path()
    metas, bods = meta_blocks(), bodies(tier)
    case, n = make_case(metas, bods)
    res = pmap.pmap(n, case, deadline_s=core.deadline_s(tier) * 0.9)
    pmap.fold(rep, "grid", n, res, "%d bodies x %d metadata blocks x 4 formats x 3 extension sets" % (len(bods), len(metas)))
    rep.add_sample(dict(meta=metas[12][1].decode("latin-1"), body=bods[3].decode("latin-1"), formats=[f for f, _ in FORMATS]))
    rep.add_sample(dict(meta=metas[1][1].decode("latin-1"), body=bods[40].decode("latin-1")))
    return rep.finish()

def replay(rec):
    c = rec["cases"][0]; src = c["src"].encode("latin-1"); f = dict(FORMATS)[c["format"]]
    for nm, x in (("snippet", S), ("complete", C), ("default", 0)):
        print("----", nm); print(mmd.convert(src, c["ext"] | x, f).decode("utf-8", "replace"))
    return 1

def prepare(): mmd.so_path()

META = dict(level="exploration", engine="E5",
    technique="exhaustive grid over bodies x metadata blocks x formats x option sets on the real library; differential oracles (snippet within complete, default = one of the two, body invariant under unrelated metadata)",
    text="The complete cross product of the body set, the metadata-block set, four formats, three extension sets and the three wrapper modes is rendered; no expected output is written by hand - the renderings are compared with one another.",
    note="key classification (rendering-control vs other) is taken from the documented list in the statement")
