"""C14 OPML export is lossless and re-import reproduces the document (E1 over heading trees x bodies x preamble x metadata)."""
import itertools, re
import xml.parsers.expat as expat
from vp import core, mmd, pmap

BODIES = [b"", b"\xc3\x9cber text \xe2\x80\xa0\n", b"a & b < c > d \"q\" 'z'\n", b"tab\there  two  spaces \n", b"* l1\n* l2\n", b"    code <x> & y\n", b"```\nf & <g>\n```\n", b"line1\nline2\n\nsecond para\n",
          b"&amp; &lt; &#10; &quot; literal entities\n", b"caf\xc3\xa9 \xe2\x80\xa0 \xf0\x9f\x98\x80\n", b"    code\n\n  \n", b"text\n \n\t\n"]
STYLES = ["atx", "closed", "setext"]
METAS = [b"", b"Title: My Title\n", b"Title: T & <x> \"q\"\nAuthor: Some One\n", b"Title: B\nBase Header Level: 2\n", b"Base Header Level: 3\nmy key: v: w\n", b"Author: \xc3\x89mile \xe2\x80\xa0\nTitle: \xc3\x9cber\n"]
PRE = [b"", b"preamble text & more\n", b"\nKey: text after a leading blank line\n", b"\n\nplain after two blank lines\n"]      # the last two make a document without metadata begin with blank lines

def level_seqs(n):
    out = []
    def rec(seq):
        if seq: out.append(tuple(seq))
        if len(seq) == n: return
        top = (seq[-1] + 1) if seq else 1
        for l in range(1, min(top, 6) + 1): rec(seq + [l])
    rec([])
    return [s for s in out if s[0] == 1]

def heading(level, style, k):
    title = b"Head %d" % k
    if style == "setext" and level <= 2: return title + b"\n" + (b"=" if level == 1 else b"-") * 6 + b"\n", title
    if style == "closed": return b"#" * level + b" " + title + b" " + b"#" * level + b"\n", title
    return b"#" * level + b" " + title + b"\n", title

def build(meta, pre, secs, tight=False):
    """secs: list of (level, style, body idx).  Returns (source, [(heading line, expected note)], preamble note)"""
    src = meta
    pieces = []
    lead = b"\n" if meta else b""
    prenote = None
    if pre:
        prenote = lead + pre + b"\n"; src += prenote; lead = b""
    for k, (lvl, style, b) in enumerate(secs):
        h, title = heading(lvl, style, k + 1)
        body = BODIES[b]
        note = b"\n" + (body + b"\n" if body else b"")
        if k == len(secs) - 1 and body: note = b"\n" + body        # the document ends with the body's own newline
        if tight and body and style != "setext": note = note[1:]      # the body starts on the line right after the heading
        pieces.append((lead + h if False else h, note, title))
        src += lead + h + note; lead = b""
    return src, pieces, prenote

def parse_opml(x):
    outs = []; stack = []; state = dict(meta=0, depth=0)
    p = expat.ParserCreate()
    def start(name, attrs):
        if name == "outline":
            state["depth"] += 1
            if attrs.get("text") == ">>Metadata<<" and not state["meta"]: state["meta"] = state["depth"]; return
            if state["meta"]: return
            outs.append((attrs.get("text"), attrs.get("_note", "")))
    def end(name):
        if name == "outline":
            if state["meta"] == state["depth"]: state["meta"] = 0
            state["depth"] -= 1
    p.StartElementHandler = start; p.EndElementHandler = end
    p.Parse(x, True)
    return outs

def cases_list(tier):
    out = []
    maxn = 3 if tier == "quick" else 4
    for seq in level_seqs(maxn):
        n = len(seq)
        bsets = range(len(BODIES)) if n <= 2 else (0, 1, 2, 5) if n == 3 else (0, 2)
        ssets = STYLES if n <= 3 else ("atx", "setext")
        for styles in itertools.product(ssets, repeat=n):
            for bods in itertools.product(bsets, repeat=n):
                for m in range(len(METAS)):
                    for pr in range(len(PRE)):
                        if n >= 3 and (m in (1, 4)): continue
                        if pr >= 2 and n > 2: continue
                        out.append((seq, styles, bods, m, pr, 0))
                        if n <= 2 and m in (0, 2): out.append((seq, styles, bods, m, pr, 1))        # the same document with CRLF line ends
                        if n <= 2 and m == 0: out.append((seq, styles, bods, m, pr, 2))             # bodies that start on the line right after their heading
    return out

def deep_cases():
    """deep and bushy outlines: chains down to level 6, with and without an earlier sibling at every level, returning or not to level 1"""
    out = []
    for D in range(2, 7):
        for bushy in (0, 1, 2):
            seq = []
            for l in range(1, D + 1): seq += [l] * (1 + (bushy if l > 1 or bushy == 2 else 0))
            for tail in ((), (1,), tuple(range(D - 1, 0, -1))):
                sq = tuple(seq) + tail
                for style in ("atx", "closed"):
                    for m in (0, 2, 3):
                        for pr in (0, 1):
                            out.append((sq, (style,) * len(sq), (1,) * len(sq), m, pr, 0))
    return out

def make_case(cl):
    def case(idx):
        seq, styles, bods, m, pr, crlf = cl[idx]
        secs = list(zip(seq, styles, bods))
        src, pieces, prenote = build(METAS[m], PRE[pr], secs, tight=(crlf == 2))
        meta_len = len(METAS[m])
        if crlf == 1:
            x = lambda b: b.replace(b"\n", b"\r\n")
            meta_len = len(x(METAS[m])); src = x(src); pieces = [(x(h), x(nn), t) for h, nn, t in pieces]; prenote = x(prenote) if prenote else prenote
        case_d = dict(src=src.decode("latin-1"))
        v = []
        opml = mmd.convert(src, mmd.EXT_DEFAULT, 9)
        try:
            outs = parse_opml(opml)
        except expat.ExpatError as e:
            return (pmap.h64(src), [("opml:not-well-formed", "OPML export does not parse: %s" % e, case_d)], dict(judged=1))
        pre_note = ""
        if outs and outs[0][0] == ">>Preamble<<": pre_note = outs[0][1]; outs = outs[1:]
        got_titles = [t for t, _ in outs]; exp_titles = [title.decode() for _, _, title in pieces]
        if got_titles != exp_titles:
            v.append(("opml:outline-titles", "outline items %r, expected %r" % (got_titles, exp_titles), case_d))
        else:
            recon = pre_note.encode("utf-8") + b"".join(h + n.encode("utf-8") for (h, _, _), (_, n) in zip(pieces, outs))
            want = src[meta_len:]
            if recon != want:
                kind = "trailing-blank-lines" if recon.rstrip(b"\n") == want.rstrip(b"\n") else "content"
                v.append(("opml:note-not-verbatim:" + kind, "heading lines + notes give %r, the source is %r" % (recon, want), case_d))
        # round trip
        back = mmd.opml_to_text(opml)
        if back is None:
            v.append(("opml:import-failed", "import of the exported OPML returned nothing", case_d))
        else:
            f = mmd.EXT_DEFAULT | mmd.EXT["COMPLETE"]
            h1 = mmd.convert(src, f, 0); h2 = mmd.convert(back, f, 0)
            if h1 != h2:
                # classify: metadata part or body part
                b1 = h1.split(b"<body>", 1)[-1]; b2 = h2.split(b"<body>", 1)[-1]
                v.append(("opml:roundtrip-html-differs:" + ("body" if b1 != b2 else "head"), "html of the re-imported document differs from the original's; re-imported text %r" % back, dict(case_d, reimported=back.decode("latin-1"))))
        return (pmap.h64(src), v, dict(judged=1))
    return case

RES = [b"&", b"<", b">", b"\"", b"'", b"\t", b" ", b"\n", b"&amp;", b"&#10;", b"&#9;", b"&lt;", b"a", b"\\", b"\xc3\xa9", b"]]>", b"--"]
def escape_case(L):
    n = len(RES)
    def case(idx):
        parts = []
        for _ in range(L): parts.append(RES[idx % n]); idx //= n
        s = b"x" + b"".join(parts) + b"y"
        if re.search(rb"(?m)^(-+|=+)$", s): return (None, [], dict(skipped=1))      # the body would contain a Setext underline: not a body any more
        src = b"# H\n\n" + s + b"\n"
        opml = mmd.convert(src, mmd.EXT_DEFAULT, 9)
        v = []
        try:
            outs = parse_opml(opml)
            note = outs[0][1].encode("utf-8") if outs else None
            if note != b"\n" + s + b"\n":
                v.append(("opml:escape-not-exact", "note %r for body %r" % (note, s), dict(src=src.decode("latin-1"))))
        except expat.ExpatError as e:
            v.append(("opml:not-well-formed", "OPML export does not parse: %s" % e, dict(src=src.decode("latin-1"))))
        back = mmd.opml_to_text(opml)
        if back is None or s not in back or back.split(b"\n", 2)[-1] != s + b"\n":
            v.append(("opml:unescape-not-inverse", "re-imported text %r does not carry the body %r verbatim" % (back, s), dict(src=src.decode("latin-1"))))
        return (pmap.h64(s), v, dict(judged=1))
    return case, n ** L

# heading titles: the reserved/escape alphabet plus what is markup inside a heading line
TRES = [x for x in RES if x not in (b"\n", b"&#10;")] + [b"#", b" #", b"##", b"\\#", b"*", b"`", b"=", b"-", b"[x]", b":", b"C#"]
def title_case(L):
    n = len(TRES); shapes = 5; styles = 5
    def case(idx):
        st = idx % styles; idx //= styles; sh = idx % shapes; idx //= shapes
        parts = []
        for _ in range(L): parts.append(TRES[idx % n]); idx //= n
        x = b"".join(parts)
        title = (b"Ta" + x + b"b", b"Ta " + x + b" b", b"Ta" + x, b"Ta " + x, x + b"Tz")[sh]
        if sh == 4 and (not x.strip() or x[:1] in b" \t#=-*:>`[" or x.startswith(b"&#")): return (None, [], dict(skipped=1))      # a title cannot begin with blanks or block markup
        if st == 0: h = b"# " + title + b"\n"
        elif st == 1: h = b"# " + title + b" #\n"
        elif st == 2: h = b"# " + title + b" ###\n"
        elif st == 3: h = title + b"\n======\n"
        else: h = b"# First\n\ntext\n\n## " + title + b" ##\n"
        if st == 3 and (re.match(rb"^\S+:", title) or title.rstrip().endswith(b"|")): return (None, [], dict(skipped=1))
        src = h + b"\nbody line\n"
        case_d = dict(src=src.decode("latin-1")); v = []
        opml = mmd.convert(src, mmd.EXT_DEFAULT, 9)
        try: parse_opml(opml)
        except expat.ExpatError as e:
            return (pmap.h64(src), [("opml:not-well-formed", "OPML export does not parse: %s" % e, case_d)], dict(judged=1))
        back = mmd.opml_to_text(opml)
        if back is None:
            v.append(("opml:import-failed", "import of the exported OPML returned nothing", case_d))
        else:
            f = mmd.EXT_DEFAULT | mmd.EXT["SNIPPET"]
            ws = lambda h: re.sub(rb"[ \t]+(</h\d>)", rb"\1", h)        # trailing blanks inside a heading element are not content
            h1 = ws(mmd.convert(src, f, 0)); h2 = ws(mmd.convert(back, f, 0))
            if h1 != h2:
                sigx = ":title-ending-in-backslash" if title.rstrip().endswith(b"\\") else ""
                v.append(("opml:roundtrip-html-differs:heading-title" + sigx, "html of the re-imported document differs: %r vs %r; re-imported text %r" % (h2[:200], h1[:200], back), dict(case_d, reimported=back.decode("latin-1"))))
        return (pmap.h64(src), v, dict(judged=1))
    return case, n ** L * shapes * styles

def run(tier):
    rep = core.Report("C14", tier, "exploration")
    rep.rule = ("all properly nested heading-level sequences up to the level's length x heading style {ATX, closed ATX, Setext} x section bodies (empty, text, every XML-reserved and whitespace character, lists, code, literal entities, multi-byte) "
                "x preamble {no,yes} x metadata {0,1,2 keys}; oracles: the OPML parses (expat), outline titles in order, each _note equals the source text between the headings byte for byte, "
                "html -f of import(export(src)) == html -f of src; plus every string of length <= L over the reserved/escape alphabet as a body: note exact and re-import exact; and inside / at the end of a heading title in 5 heading spellings: round trip renders identically; distinct = distinct sources")
    rep.assumptions = ["headings are properly nested and metadata values single-line (the statement's precondition)"]
    mmd.so_path(); dl = core.deadline_s(tier)
    cl = cases_list(tier)
    res = pmap.pmap(len(cl), make_case(cl), deadline_s=dl * 0.7)
    pmap.fold(rep, "heading-trees", len(cl), res, "heading trees x styles x bodies x preamble x metadata: verbatim notes + round trip")
    dc = deep_cases()
    res = pmap.pmap(len(dc), make_case(dc), deadline_s=dl * 0.7)
    pmap.fold(rep, "deep-outlines", len(dc), res, "chains down to heading level 6, with 0-2 earlier siblings per level, returning or not to level 1 x 2 styles x metadata x preamble: verbatim notes + round trip")
    for L in ((1, 2) if tier == "quick" else (1, 2, 3)):
        case, n = escape_case(L)
        res = pmap.pmap(n, case, deadline_s=dl * 0.9)
        pmap.fold(rep, "escape-inverse-len%d" % L, n, res, "every body string of length %d over the reserved/escape alphabet: export exact, import exact" % L)
    for L in ((1,) if tier == "quick" else (1, 2)):
        case, n = title_case(L)
        res = pmap.pmap(n, case, deadline_s=dl * 0.9)
        pmap.fold(rep, "heading-title-len%d" % L, n, res, "every string of length %d over the reserved/heading-markup alphabet inside and at the end of a heading title x 5 heading spellings: html of import(export) == html of the source" % L)
    src, pieces, pn = build(METAS[2], PRE[1], [(1, "atx", 2), (2, "setext", 4)])
    rep.add_sample(dict(src=src.decode("latin-1"), expected_notes=[n.decode("latin-1") for _, n, _ in pieces]))
    return rep.finish()

def replay(rec):
    c = rec["cases"][0]; src = c["src"].encode("latin-1")
    o = mmd.convert(src, mmd.EXT_DEFAULT, 9); print(o.decode("utf-8", "replace")); print(repr(mmd.opml_to_text(o)))
    return 1

def prepare(): mmd.so_path()

META = dict(level="exploration", engine="E5",
    technique="bounded-exhaustive enumeration of heading trees x bodies; independent XML parser (expat) reads the export; verbatim-note oracle and differential round-trip oracle",
    text="Every properly nested heading tree up to the stated size with every body shape is exported; expat recovers the outline and every note must equal the source text between the headings byte for byte; the re-imported document must render identically (metadata included); the escape/unescape pair is exercised on every short string over the reserved alphabet.",
    note="trusted: expat; the generator's own segmentation of the source")
