"""C09 package outputs are valid archives with the required members (E5 grid; Python zipfile/json/expat as independent readers)."""
import io, os, re, json, zipfile, itertools, subprocess, tempfile, shutil, time
import xml.parsers.expat as expat
from vp import build, core, mmd, pmap

ASSETS = os.path.join(core.VERIF, "fixtures", "assets")
IMG = open(os.path.join(ASSETS, "i.png"), "rb").read() if os.path.exists(os.path.join(ASSETS, "i.png")) else b""
METAS = [b"", b"Title: Plain title\n\n", b"Title: T & <x> \"q\"\nAuthor: A & B <c>\n\n", b"Title: t\nCSS: a.css\n\n", b"Title: t\nuuid: 1234\ndate: 2020-02-02\nlanguage: de\n\n"]
HEADS = [b"", b"# One\n\n", b"# One\n\n## Two\n\n### Three & <more>\n\n# Four\n\n"]
IMAGES = [b"", b"text ![alt](i.png) more\n\n", b"![fig](f.png \"Title\")\n\n", b"![m](missing.png) x\n\n", b"![r](http://example.com/r.png) x\n\n", b"![a](i.png) ![b](i.png) ![c][ref]\n\n[ref]: f.png width=10px\n\n",
          b"![alt](i.png \"with title\") x\n\n",
          # several assets whose names differ in length, extension length and directory
          b"![p](photo.jpeg) then ![i](i.png) and ![n](noext)\n\n", b"![i](i.png) ![d](sub/deep.gif) ![p](photo.jpeg) ![f](f.png)\n\n"]
TAILS = [b"", b"para *e* `c` [l](http://u/?a=1&b=2)\n\n{{TOC}}\n\n| a | b |\n|---|---|\n| c | d |\n\n[^f]: note\n\ntext[^f]\n\n```{=html}\n<div class=\"raw\">raw block</div>\n```\n\nraw `<b>inline</b>`{=html} and `\\x`{=latex} and `<i>any</i>`{=*} end\n"]
FORMATS = [("epub", 1), ("odt", 6), ("bundlezip", 8), ("itmz", 10)]

def xml_err(data):
    p = expat.ParserCreate(); p.UseForeignDTD(True)
    try: p.Parse(data, True); return None
    except expat.ExpatError as e: return str(e)

def norm_html(h):
    h = re.sub(rb'(src|href)="[^"#][^"]*"', rb'\1=""', h)
    h = re.sub(rb'<div class="TOC">.*?</div>\n*', b"", h, flags=re.S)
    return re.sub(rb"\n+", b"\n", h).strip()

def norm_odf(x):
    m = re.search(rb"<office:text>(.*)</office:text>", x, re.S)
    b = m.group(1) if m else x
    b = re.sub(rb'xlink:href="[^"#][^"]*"', b'xlink:href=""', b)
    return re.sub(rb"\n+", b"\n", b).strip()

def check_archive(fname, data, doc, directory, ext, v, case_d):
    sig = lambda s: "package:%s:%s" % (fname, s)
    try:
        z = zipfile.ZipFile(io.BytesIO(data))
    except Exception as e:
        v.append((sig("not-a-zip"), "result is not a readable ZIP archive: %s" % e, case_d)); return
    try: bad = z.testzip()
    except Exception as e: bad = "(a member that cannot be decompressed: %s)" % e        # zlib/zipfile raise on a stream that is not what the header says
    if bad: v.append((sig("crc"), "member %s fails its CRC" % bad, case_d)); return
    names = z.namelist()
    if len(names) != len(set(names)): v.append((sig("duplicate-member"), "duplicate member names %r" % names, case_d))
    infos = z.infolist()
    def need(n):
        if n not in names: v.append((sig("missing-" + n.split("/")[-1]), "required member %s is missing (members: %r)" % (n, names), case_d)); return False
        return True
    if fname == "epub":
        if not names or names[0] != "mimetype": v.append((sig("mimetype-not-first"), "first member is %r" % (names[:1],), case_d))
        elif z.read("mimetype") != b"application/epub+zip": v.append((sig("mimetype-content"), "mimetype is %r" % z.read("mimetype"), case_d))
        if need("META-INF/container.xml"):
            c = z.read("META-INF/container.xml")
            if xml_err(c) or b'full-path="OEBPS/main.opf"' not in c: v.append((sig("container"), "container.xml does not name OEBPS/main.opf: %r" % c, case_d))
        if need("OEBPS/main.opf"):
            opf = z.read("OEBPS/main.opf"); e = xml_err(opf)
            if e: v.append((sig("opf-not-well-formed"), e, case_d))
            hrefs = re.findall(rb'<item [^>]*href="([^"]*)"', opf)
            for h in (b"nav.xhtml", b"main.xhtml"):
                if h not in hrefs: v.append((sig("opf-manifest-lacks-" + h.decode()), "manifest items %r" % hrefs, case_d))
            for h in hrefs:
                if "OEBPS/" + h.decode() not in names: v.append((sig("opf-manifest-item-missing"), "manifest lists %s which is not in the archive" % h, case_d))
            # (the statement asks for nav.xhtml and main.xhtml in the package manifest; stored assets are not listed there by this writer and are not judged)
            ids = re.findall(rb'<item [^>]*id="([^"]*)"', opf)
            if len(ids) != len(set(ids)): v.append((sig("opf-duplicate-item-id"), "manifest item ids are not unique: %r" % ids, case_d))
            spine = re.findall(rb'<itemref [^>]*idref="([^"]*)"', opf)
            if [x for x in spine if x not in ids]: v.append((sig("opf-spine-refers-to-unknown-item"), "spine %r, item ids %r" % (spine, ids), case_d))
        need("OEBPS/nav.xhtml")
        if need("OEBPS/main.xhtml"):
            main = z.read("OEBPS/main.xhtml")
            plain = mmd.convert(doc, ext | mmd.EXT["COMPLETE"], 0)
            if norm_html(main) != norm_html(plain):
                v.append((sig("main-differs-from-plain-html"), "main.xhtml differs from html -f beyond asset paths and the TOC", dict(case_d, main=main.decode("utf-8", "replace")[-800:], plain=plain.decode("utf-8", "replace")[-800:])))
            refs = re.findall(rb'(?:src|href)="(assets/[^"]*)"', main)
            check_assets(fname, z, names, "OEBPS/", refs, doc, directory, v, case_d)
    elif fname == "odt":
        if not names or names[0] != "mimetype": v.append((sig("mimetype-not-first"), "first member is %r" % (names[:1],), case_d))
        else:
            if infos[0].compress_type != zipfile.ZIP_STORED: v.append((sig("mimetype-compressed"), "mimetype is stored with compression method %d" % infos[0].compress_type, case_d))
            if z.read("mimetype") != b"application/vnd.oasis.opendocument.text": v.append((sig("mimetype-content"), "mimetype is %r" % z.read("mimetype"), case_d))
        man = z.read("META-INF/manifest.xml") if need("META-INF/manifest.xml") else b""
        for n in ("content.xml", "styles.xml", "meta.xml", "settings.xml"):
            if need(n):
                e = xml_err(z.read(n))
                if e: v.append((sig(n + "-not-well-formed"), e, case_d))
                if man and ('full-path="%s"' % n).encode() not in man: v.append((sig("manifest-lacks-" + n), "manifest.xml does not list %s" % n, case_d))
        listed = {p.decode() for p in re.findall(rb'full-path="([^"]*)"', man)}
        unlisted = [n for n in names if n != "mimetype" and not n.startswith("META-INF/") and not n.endswith("/") and n not in listed]
        if man and unlisted:
            v.append((sig("member-not-in-manifest"), "the archive holds %s, which manifest.xml does not list" % ", ".join(unlisted), case_d))
        missing = [p.decode() for p in re.findall(rb'full-path="([^"]*)"', man) if p.decode() not in ("/",) and not p.endswith(b"/") and p.decode() not in names]
        if missing:
            # images the library cannot read (no directory, remote, no such file) are the recorded finding; a manifest entry missing although every
            # image of the source is readable, or more entries missing than there are unreadable images, is something else
            urls = re.findall(rb'!\[[^\]]*\]\(([^) "]+)', doc) + re.findall(rb'(?m)^\[[^\]^#?>][^\]]*\]:[ \t]*<?([^ \t\n>]+)', doc)
            dpath = directory.decode() if isinstance(directory, bytes) else directory
            unreadable = [u for u in urls if not dpath or b"://" in u or not os.path.isfile(os.path.join(dpath, u.decode("latin-1")))]
            kind = "manifest-entry-missing" if (all(m.startswith("Pictures/") for m in missing) and len(missing) <= len(unreadable)) else "manifest-entry-missing-for-present-member"
            v.append((sig(kind), "manifest.xml lists %s which %s not in the archive" % (", ".join(missing), "is" if len(missing) == 1 else "are"), case_d))
        if "content.xml" in names:
            flat = mmd.convert_to_data(doc, ext, 5, 0, directory)
            if norm_odf(z.read("content.xml")) != norm_odf(flat):
                v.append((sig("content-differs-from-fodt"), "content.xml body differs from the flat ODF body beyond asset paths", case_d))
            refs = re.findall(rb'xlink:href="(Pictures/[^"]*)"', z.read("content.xml"))
            check_assets(fname, z, names, "", refs, doc, directory, v, case_d)
    elif fname == "bundlezip":
        if need("info.json"):
            try: json.loads(z.read("info.json"))
            except ValueError as e: v.append((sig("info-json"), "info.json does not parse: %s" % e, case_d))
        if need("text.markdown"):
            md = z.read("text.markdown")
            refs = re.findall(rb'\((assets/[^) "]*)', md) + re.findall(rb'\]: (assets/[^ \n]*)', md)
            check_assets(fname, z, names, "", refs, doc, directory, v, case_d)
            # the stored text must reference an image exactly where its html rendering does
            if "text.html" in names:
                h = z.read("text.html")
                plain = mmd.convert(doc, ext | mmd.EXT["COMPLETE"], 0)
                if norm_html(h) != norm_html(plain):
                    v.append((sig("html-differs-from-plain-html"), "text.html differs from html -f beyond asset paths and the TOC", dict(case_d, got=h.decode("utf-8", "replace")[-600:], plain=plain.decode("utf-8", "replace")[-600:])))
                n_html = len(re.findall(rb'<img src="assets/', h)); n_md = len(re.findall(rb'!\[[^\]]*\]\(assets/', md)) + sum(1 for _ in re.finditer(rb'^\[[^\]]*\]: assets/', md, re.M))
                n_img_refdefs = len(re.findall(rb'!\[[^\]]*\]\[', md))
                left = re.findall(rb'!\[[^\]]*\]\((?!assets/)((?:i|f)\.png)( "[^"]*")?\)', md)       # local images that exist but were not re-pathed
                if directory and any(not t for _, t in left):
                    v.append((sig("text-keeps-original-image-path-of-untitled-image"), "text.markdown still uses the original path of an image that was stored as an asset: %r" % md, case_d))
                elif n_html and n_md == 0 and not n_img_refdefs:
                    v.append((sig("text-keeps-original-image-path"), "text.html references assets/ but text.markdown still uses the original image path: %r" % md, case_d))
    elif fname == "itmz":
        if need("mapdata.xml"):
            e = xml_err(z.read("mapdata.xml"))
            if e: v.append((sig("mapdata-not-well-formed"), e, case_d))

SOURCE_FILES = set()
for _d, _sub, _fs in os.walk(ASSETS):
    for _f in _fs: SOURCE_FILES.add(open(os.path.join(_d, _f), "rb").read())
def check_assets(fname, z, names, prefix, refs, doc, directory, v, case_d):
    for r in set(refs):
        member = prefix + r.decode()
        present = member in names
        # which source file is it?  local images that exist in the directory must be stored with identical bytes
        if present:
            data = z.read(member)
            if directory and data not in SOURCE_FILES:
                v.append(("package:%s:asset-bytes" % fname, "asset %s does not hold the bytes of a source file" % member, case_d))
    if directory:
        # every readable local file the document refers to must be stored (same bytes), every reference must resolve, nothing else is stored
        urls = re.findall(rb'!\[[^\]]*\]\(([^) "]+)', doc) + re.findall(rb'(?m)^\[[^\]^#?>][^\]]*\]:[ \t]*<?([^ \t\n>]+)', doc)
        if fname != "odt": urls += re.findall(rb"(?mi)^css:[ \t]*(\S+)", doc.split(b"\n\n", 1)[0])
        dpath = directory.decode() if isinstance(directory, bytes) else directory
        local = sorted({u for u in urls if b"://" not in u and os.path.isfile(os.path.join(dpath, u.decode("latin-1")))})
        want_bytes = sorted({open(os.path.join(dpath, u.decode("latin-1")), "rb").read() for u in local})
        stored = [n for n in names if (n.startswith(prefix + "assets/") or n.startswith("Pictures/")) and not n.endswith("/")]
        have_bytes = sorted({z.read(n) for n in stored})
        if local and not stored:
            v.append(("package:%s:local-asset-not-stored" % fname, "the document references %d existing local file(s) but the archive stores none" % len(local), case_d))
        elif have_bytes != want_bytes:
            v.append(("package:%s:stored-assets-differ-from-referenced-files" % fname, "the archive stores %d distinct asset contents, the document references %d distinct readable files (%s)" % (len(have_bytes), len(want_bytes), b", ".join(local).decode("latin-1")), case_d))
        dangling = [r.decode() for r in set(refs) if (prefix + r.decode()) not in names]
        if dangling and local and len(dangling) > len([u for u in urls if u not in local]):
            v.append(("package:%s:reference-to-missing-member" % fname, "the content references %s, not in the archive" % ", ".join(dangling), case_d))

def sources():
    out = []
    for m, h, i, t in itertools.product(range(len(METAS)), range(len(HEADS)), range(len(IMAGES)), range(len(TAILS))):
        out.append(METAS[m] + HEADS[h] + IMAGES[i] + TAILS[t])
    # tiny members: sources of 0..5 bytes (TextBundle stores the source itself) and assets of 2, 3 and 10 bytes
    out += [b"", b"a", b"ab", b"ab\n", b"a\n\n", b"abcd", b"abcd\n", b"\n", b"CSS: tiny.css\n\nx ![t](t3.png) ![u](t10.png)\n", b"![t](t3.png)\n"]
    return out

def make_case(srcs):
    def case(idx):
        di = idx % 2; idx //= 2; fi = idx % len(FORMATS); si = idx // len(FORMATS)
        doc = srcs[si]; fname, fmt = FORMATS[fi]; directory = ASSETS.encode() if di == 0 else None
        ext = mmd.EXT_DEFAULT
        case_d = dict(src=doc.decode("latin-1"), format=fname, directory="fixtures/assets" if directory else None)
        v = []
        data = mmd.convert_to_data(doc, ext, fmt, 0, directory)
        if not data:
            v.append(("package:%s:empty-result" % fname, "convert_to_data returned nothing", case_d))
        else:
            check_archive(fname, data, doc, directory, ext, v, case_d)
        return (pmap.h64(doc + bytes([fi, di])), v, dict(judged=1))
    return case, len(srcs) * len(FORMATS) * 2

def cli_leg(rep, tier):
    t0 = time.time(); cli = build.build_cli()
    srcs = sources()[::(17 if tier == "quick" else 3)]
    tmp = tempfile.mkdtemp(prefix="vp-c09-", dir="/dev/shm" if os.path.isdir("/dev/shm") else None)
    n = 0
    try:
        for k in ("i.png", "f.png", "a.css"): shutil.copy(os.path.join(ASSETS, k), tmp)
        for si, doc in enumerate(srcs):
            inp = os.path.join(tmp, "in%d.txt" % si); open(inp, "wb").write(doc)
            for fname, fmt in FORMATS:
                outp = os.path.join(tmp, "out%d.%s" % (si, fname))
                r = subprocess.run([cli, "-t", fname, "-o", outp, inp], capture_output=True)
                n += 1
                case_d = dict(src=doc.decode("latin-1"), format=fname, via="cli -o")
                v = []
                if not os.path.exists(outp) or os.path.getsize(outp) == 0:
                    v.append(("package:%s:cli-no-output" % fname, "multimarkdown -t %s -o wrote nothing (rc %d, stderr %r)" % (fname, r.returncode, r.stderr[:200]), case_d))
                else:
                    mmd_doc = doc
                    check_archive(fname, open(outp, "rb").read(), mmd_doc, tmp.encode(), mmd.EXT_DEFAULT, v, case_d)
                    os.unlink(outp)
                for s, d, c in v:
                    if "differs-from" in s: continue          # plain renderings are compared in-process (same clock, same rand); here only the archive itself
                    rep.add_violation(s, d + " [via the CLI]", c, replay=dict(kind="cli"))
    finally:
        shutil.rmtree(tmp, ignore_errors=True)
    rep.add_level("cli-o", n, n, True, time.time() - t0, n, "real CLI -t <format> -o <file> on a sub-grid of sources x 4 package formats")

def run(tier):
    rep = core.Report("C09", tier, "exploration")
    rep.rule = ("grid: sources = metadata {none, plain, reserved characters, CSS, uuid/date/language} x headings {0,1,many} x images {none, local present, figure with title, local missing, remote URL, repeated + reference image, image with title} "
                "x tail {none, links/TOC/table/footnote} x {epub, odt, bundlezip, itmz} x directory {fixture dir, NULL}; oracle with Python zipfile/json/expat: readable archive, CRCs, no duplicate names, required members and order, "
                "manifests list existing members, main document = plain rendering modulo asset paths and EPUB's omitted TOC, stored local assets carry the source bytes; distinct = distinct (source, format, directory)")
    rep.assumptions = ["an image whose file is missing or remote is not judged for presence in the archive (the statement asks for consistency with the asset table, which is not observable from outside)"]
    mmd.so_path(); srcs = sources()
    case, n = make_case(srcs)
    res = pmap.pmap(n, case, init_fn=mmd.init_worker, deadline_s=core.deadline_s(tier) * 0.8)
    pmap.fold(rep, "grid", n, res, "%d sources x 4 package formats x {directory, NULL}" % len(srcs))
    cli_leg(rep, tier)
    rep.add_sample(dict(src=srcs[37].decode("latin-1"), formats=[f for f, _ in FORMATS]))
    rep.add_sample(dict(src=srcs[-1].decode("latin-1")))
    return rep.finish()

def replay(rec):
    print(rec["cases"][0]); return 1
def prepare():
    mmd.so_path(); build.build_cli()

META = dict(level="exploration", engine="E5",
    technique="exhaustive grid over source shapes x package formats x directory, read back with independent ZIP/JSON/XML readers and compared with the plain renderings",
    text="Every combination of metadata, heading, image and tail shapes is packaged as EPUB, ODT, compressed TextBundle and ITMZ with and without an asset directory; Python's zipfile verifies the archive and CRCs, the required members, their order and storage method, the manifests, and that the main document equals the plain format's rendering apart from asset paths; the real CLI writes a sub-grid to files which are verified the same way.",
    note="trusted: Python zipfile/json/expat")
