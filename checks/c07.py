"""C07 bounded stack and linear cost (E5: two grids; stack under the CLI's 8 MB limit, cost in executed basic blocks)."""
import os
from vp import build, core

WRAPS = "strlen,memmove,memcpy,strstr,strncat,strcat,strcmp,strchr,strncpy"
LD = "-Wl,--wrap=exit -Wl,--wrap=time"

def exes():
    import shutil
    # the cost build needs -DVP_COST for the harness TU: give it its own source name so that the object cache keys differ
    src = os.path.join(core.VERIF, "harness", "c07.c"); dst = os.path.join(core.VERIF, "build", "c07_cost.c")
    os.makedirs(os.path.dirname(dst), exist_ok=True)
    txt = "#define VP_COST 1\n" + open(src).read()
    if not os.path.exists(dst) or open(dst).read() != txt: open(dst, "w").write(txt)
    return {"c07-plain": build.link("plain", "c07", ["kernel.c", "c07.c"], LD),
            "c07-plain-nopool": build.link("plain-nopool", "c07", ["kernel.c", "c07.c"], LD),
            "c07cost-cov": build.link("cov", "c07cost", ["kernel.c", "../build/c07_cost.c"], LD + "".join(" -Wl,--wrap=" + w for w in WRAPS.split(",")))}
def prepare(): exes()

def corpus():
    d = os.path.join(core.REPO, "tests", "MMD6Tests")
    return [os.path.join(d, f) for f in sorted(os.listdir(d)) if f.endswith(".text")] if os.path.isdir(d) else []

def run(tier):
    rep = core.Report("C07", tier, "exploration")
    rep.rule = ("stack grid: 37 nesting constructs (brackets, emphasis, quotes, CriticMarkup, math, braces, block-quote and list staircases, nested definitions, fences in lists, HTML) x {openers only, matched, closers only} x depth ladder x "
                "{html, latex, fodt, opml, itmz, critic accept/reject, OPML import} under an 8 MB stack, with and without the token pool: the call must return; cost grid: for every seed d (each line kind, block seeds, the published pathological patterns, the repository's test documents) "
                "and doubling k, executed basic blocks + bytes touched by libc string functions must satisfy cost(d^2k)/cost(d^k) <= 2.6; distinct = distinct output/cost hashes")
    rep.assumptions = ["a (construct, depth) cell that exceeds the per-case time cap is reported as not covered, never as a failure", "the cost threshold 2.6 sits between n log n (<= 2.2) and quadratic (-> 4) and was fixed before measuring"]
    ex = exes()
    os.environ["VP_CORPUS"] = "\n".join(c for c in corpus() if os.path.getsize(c) < (6000 if tier == "quick" else 40000))
    core.run_driver(rep, ex["c07-plain"], tier, "plain", hang=8 if tier == "quick" else 120)
    core.run_driver(rep, ex["c07-plain-nopool"], tier, "plain-nopool", hang=8 if tier == "quick" else 120)      # without the pool the tree is freed token by token
    core.run_driver(rep, ex["c07cost-cov"], tier, "cov", levels=["cost"], hang=120 if tier == "quick" else 600)
    # hangs are uncovered cells, not failures
    uncovered = []
    for sig in list(rep.viol):
        if sig == "hang":
            v = rep.viol.pop(sig); uncovered = v["cases"]; rep.extra["uncovered_cells_over_time_cap"] = dict(count=v["count"], examples=v["cases"])
    core.confirm_violations(rep, ex)
    return rep.finish()

def replay(rec):
    ex = exes(); rp = rec["replay"]
    os.environ["VP_CORPUS"] = "\n".join(corpus())
    sigs, out, err = core.replay_driver(ex[rp["exe"]], rp["arg"]); print(out); print(err[-2000:]); print(sigs); return 1 if sigs else 0

META = dict(level="exploration", engine="E5",
    technique="exhaustive grid over nesting constructs x shapes x depth ladder x writers under the real stack limit, and a deterministic cost grid (executed basic blocks via trace-pc-guard + libc byte counts) over seeds x doubling repetition",
    text="Every nesting construct is driven to each depth of the ladder, as openers only, matched and closers only, through every writer and the text-level entry points, in a process limited to the CLI's 8 MB stack; the work for k copies of every seed is measured in executed basic blocks (bit-for-bit repeatable, no timing noise) and must at most double when k doubles.",
    note="the depth axis is a finite ladder, not all depths; libc string functions are wrapped so that a quadratic strlen/strcat loop is visible to the counter")
