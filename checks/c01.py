"""C01 memory-safe, crash-free conversion (E1 sequence explorer under ASan+UBSan, pool on and off)."""
import os
from vp import build, core

LD = "-Wl,--wrap=exit -Wl,--wrap=time"

def exes():
    return {os.path.basename(p): p for p in (
        build.link("asan", "c01", ["kernel.c", "c01.c"], LD),
        build.link("asan-nopool", "c01", ["kernel.c", "c01.c"], LD))}

def cli_leg(rep, tier):
    """the command-line tool itself (main.c: stdin, file, batch mode, transclusion, metadata options) built with ASan+UBSan"""
    import subprocess, tempfile, shutil, time
    from concurrent.futures import ThreadPoolExecutor
    t0 = time.time()
    cli = build.link("asan", "multimarkdown", [], with_main=True)
    macro = [m for m in load_alpha("macro") if b"\x00" not in m]
    fmts = ["html", "latex", "beamer", "memoir", "fodt", "odt", "epub", "bundlezip", "opml", "itmz", "mmd"]
    flagsets = [[], ["-c"], ["-a", "-f"], ["-m"], ["-e", "title"], ["--nolabels", "--random", "--unique", "-s"]]
    tmp = tempfile.mkdtemp(prefix="vp-c01cli-", dir="/dev/shm" if os.path.isdir("/dev/shm") else None)
    for k in ("i.png", "f.png", "a.css", "t.txt"): shutil.copy(os.path.join(core.VERIF, "fixtures", "assets", k), tmp)
    jobs = []
    for i, doc in enumerate(macro):
        for fi, f in enumerate(fmts):
            for gi, fl in enumerate(flagsets if tier != "quick" else flagsets[:3]):
                if tier == "quick" and (i + fi + gi) % 3: continue
                jobs.append((i, doc, f, fl, gi))
    env = core.driver_env()
    def one(j):
        i, doc, f, fl, gi = j; out = []
        sub = os.path.join(tmp, "j%d_%s_%d" % (i, f, gi)); os.makedirs(sub, exist_ok=True)
        inp = os.path.join(sub, "in.txt"); open(inp, "wb").write(doc)
        for mode, cmd, kw in (("stdin", [cli] + fl + ["-t", f], dict(input=doc)), ("file", [cli] + fl + ["-t", f, "-o", os.path.join(sub, "o.bin"), inp], {}), ("batch", [cli] + fl + ["-t", f, "-b", "in.txt"], {})):
            try:
                r = subprocess.run(cmd, capture_output=True, env=env, cwd=sub, timeout=120, **kw)
            except subprocess.TimeoutExpired:
                out.append(("hang", "CLI did not finish within 120 s: %s" % " ".join(cmd[1:]), dict(src=doc[:300].decode("latin-1"), format=f, flags=fl, mode=mode))); continue
            err = r.stderr.decode(errors="replace")
            if r.returncode < 0 or "Sanitizer" in err or "runtime error" in err:
                sig = core.sanitizer_signature(err, "signal %d" % -r.returncode if r.returncode < 0 else "exit %d" % r.returncode)
                out.append((sig + ":cli", "multimarkdown %s :: %s" % (" ".join(cmd[1:]), err[:1200]), dict(src=doc[:300].decode("latin-1"), format=f, flags=fl, mode=mode)))
        shutil.rmtree(sub, ignore_errors=True)
        return out
    n = 0
    with ThreadPoolExecutor(16) as ex:
        for vs in ex.map(one, jobs):
            n += 3
            for sig, det, case in vs: rep.add_violation(sig, det, case, replay=dict(kind="cli"))
    shutil.rmtree(tmp, ignore_errors=True)
    rep.add_level("asan-cli", n, n, True, time.time() - t0, max(len(jobs), 2), "the real CLI (ASan+UBSan build of main.c) on macro documents x 11 formats x flag sets x {stdin, file with -o, batch -b}")

def load_alpha(name):
    from checks.c08 import load_alpha as la
    out = []
    import re
    for ln in open(os.path.join(core.VERIF, "alphabets", name + ".txt"), "rb").read().split(b"\n"):
        if not ln or ln.startswith(b";;"): continue
        # expand \R<n>{text}
        def rep_(m): return m.group(2).replace(b"\\n", b"\n").replace(b"\\s", b" ").replace(b"\\t", b"\t") * int(m.group(1))
        ln = re.sub(rb"\\R(\d+)\{((?:[^}\\]|\\.)*)\}", rep_, ln)
        ln = ln.replace(b"\\\\", b"\x00").replace(b"\\n", b"\n").replace(b"\\t", b"\t").replace(b"\\s", b" ").replace(b"\\z", b"").replace(b"\\r", b"\r")
        ln = re.sub(rb"\\x([0-9a-fA-F]{2})", lambda m: bytes([int(m.group(1), 16)]), ln).replace(b"\x00", b"\\")
        out.append(ln)
    return out

def run(tier):
    rep = core.Report("C01", tier, "exploration")
    rep.rule = ("every document ctx.pre+f1..fL+ctx.post over the fragment alphabets (alphabets/*.txt), crossed with formats, "
                "extension sets, languages and both allocator modes, is converted in-process under ASan+UBSan; "
                "distinct = distinct hashes of the returned bytes (64 Mbit bitmap, lower bound)")
    rep.assumptions = ["inputs are NUL-terminated strings", "vendored miniz.c is compiled without -fsanitize=alignment",
                       "leak detection is off (leaks are outside the statement)"]
    ex = exes()
    QUICK = ["q_inline2", "q_lines2", "q_macro1", "q_extsub", "q_lang", "q_meta", "q_critic", "q_critic_range", "q_readers", "q_zipmut", "q_deep", "q_tofile", "q_engine_reuse"]
    # the thorough plan is split between the two allocator modes (each level runs in one of them; the quick levels run in both)
    THOROUGH = {"asan": QUICK + ["t_inline2", "t_critic", "t_critic_range", "t_readers", "t_macro2"],
                "asan-nopool": QUICK + ["t_lines3", "t_extsub", "t_inline3", "t_lines4"]}
    for name, exe in sorted(ex.items()):
        variant = name.split("-", 1)[1]
        core.run_driver(rep, exe, "thorough" if tier != "quick" else "quick", variant, levels=QUICK if tier == "quick" else THOROUGH[variant], hang=30 if tier == "quick" else 120)
    cli_leg(rep, tier)
    core.reclassify_self_referential_notes(rep)
    core.confirm_violations(rep, ex)
    return rep.finish()

def replay(rec):
    ex = exes()
    rp = rec["replay"]
    sigs, out, err = core.replay_driver(ex[rp["exe"]], rp["arg"])
    print(out); print(err)
    print("replayed signatures:", sigs)
    return 1 if sigs else 0

def prepare():
    exes(); build.link("asan", "multimarkdown", [], with_main=True)

META = dict(
    level="exploration", engine="E1",
    technique="bounded-exhaustive enumeration of input sequences x configuration grid, executed on the real code under ASan+UBSan (pool on and off)",
    text=("Every document over the fragment alphabets up to the stated length, in every context, format, extension set, language and allocator "
          "mode, plus every other text-accepting entry point on its own small space, is executed in-process under AddressSanitizer and "
          "UndefinedBehaviorSanitizer; a crash-locating supervisor attributes every fatal report to its exact case. Exhaustive within the bounds, nothing sampled."),
    note="trusted: clang sanitizers; small-scope hypothesis over one or two representatives per lexer token / line kind; vendored miniz.c exempt from alignment and nonnull-attribute checks",
)
