"""C01 memory-safe, crash-free conversion (E1 sequence explorer under ASan+UBSan, pool on and off)."""
import os
from vp import build, core

LD = "-Wl,--wrap=exit -Wl,--wrap=time"

def exes():
    return {os.path.basename(p): p for p in (
        build.link("asan", "c01", ["kernel.c", "c01.c"], LD),
        build.link("asan-nopool", "c01", ["kernel.c", "c01.c"], LD))}

def run(tier):
    rep = core.Report("C01", tier, "exploration")
    rep.rule = ("every document ctx.pre+f1..fL+ctx.post over the fragment alphabets (alphabets/*.txt), crossed with formats, "
                "extension sets, languages and both allocator modes, is converted in-process under ASan+UBSan; "
                "distinct = distinct hashes of the returned bytes (64 Mbit bitmap, lower bound)")
    rep.assumptions = ["inputs are NUL-terminated strings", "vendored miniz.c is compiled without -fsanitize=alignment",
                       "leak detection is off (leaks are outside the statement)"]
    ex = exes()
    QUICK = ["q_inline2", "q_lines2", "q_macro1", "q_extsub", "q_lang", "q_meta", "q_critic", "q_critic_range", "q_readers", "q_zipmut", "q_tofile", "q_engine_reuse"]
    # the thorough plan is split between the two allocator modes (each level runs in one of them; the quick levels run in both)
    THOROUGH = {"asan": QUICK + ["t_inline2", "t_critic", "t_critic_range", "t_readers", "t_macro2"],
                "asan-nopool": QUICK + ["t_lines3", "t_extsub", "t_inline3", "t_lines4"]}
    for name, exe in sorted(ex.items()):
        variant = name.split("-", 1)[1]
        core.run_driver(rep, exe, "thorough" if tier != "quick" else "quick", variant, levels=QUICK if tier == "quick" else THOROUGH[variant], hang=30 if tier == "quick" else 120)
    core.reclassify_self_referential_notes(rep)
    core.confirm_violations(rep, ex)
    return rep.finish()

def replay(rec):
    ex = exes()
    rp = rec["replay"]
    sigs, out, err = core.replay_driver(ex[rp["exe"]], rp["arg"])
    print(out); print(err)
    print("replayed signatures:", sigs)
    return 1 if sigs else 0

def prepare():
    exes()

META = dict(
    level="exploration", engine="E1",
    technique="bounded-exhaustive enumeration of input sequences x configuration grid, executed on the real code under ASan+UBSan (pool on and off)",
    text=("Every document over the fragment alphabets up to the stated length, in every context, format, extension set, language and allocator "
          "mode, plus every other text-accepting entry point on its own small space, is executed in-process under AddressSanitizer and "
          "UndefinedBehaviorSanitizer; a crash-locating supervisor attributes every fatal report to its exact case. Exhaustive within the bounds, nothing sampled."),
    note="trusted: clang sanitizers; small-scope hypothesis over one or two representatives per lexer token / line kind; vendored miniz.c exempt from alignment and nonnull-attribute checks",
)
