"""C05 output is a function of (source, options) only (E2: BFS over conversion histories in one process)."""
import os, pickle, struct, time, ctypes
from vp import core, mmd, globals as G

E = mmd.EXT
D = mmd.EXT_DEFAULT
# kitchen sink: one construct per engine stack / hash (headers + TOC, tables, footnotes, citations, glossary, abbreviations, link definitions, metadata, images as assets)
NOTES = (b"Title: T\nfoo: bar\n\n{{TOC}}\n\n# Head One\n\ntext[^a] more[#c] and [?g] [>ab] see [Head One][] and [Cap][] [%foo] \"q\" <x@y.z> [l] ![i](i.png)\n\n## Head Two ##\n\nSetext\n------\n\n"
         b"[^a]: note a\n\n[#c]: Cite\n\n[?g]: gloss\n\n[>ab]: Abbreviation\n\n[l]: http://l.m/ \"LT\"\n\n| a | b |\n|---|---|\n| c | d |\n[Cap]\n\nterm\n: def\n")
OPML = (b"<?xml version=\"1.0\" encoding=\"utf-8\"?>\n<opml version=\"1.0\">\n<head><title>T</title></head>\n<body>\n<outline text=\"H\" _note=\"n &lt;a@b.c&gt;&#10;\">\n"
        b"<outline text=\"I\" _note=\"m\"/>\n</outline>\n</body>\n</opml>\n")
ASSETS = os.path.join(core.VERIF, "fixtures", "assets").encode()
# (name, kind, source, ext, format)   kind: s = mmd_string_convert, d = mmd_d_string_convert_to_data, E* = one reused engine
OPS = [
    ("email-autolink/html/string", "s", b"<mailto:foo@bar.com> and <x@y.z>\n", D | E["OBFUSCATE"], 0),
    ("email-autolink-default/html/to_data", "d", b"mail <a@b.c> here\n", D, 0),
    ("plain/html/string", "s", b"plain *paragraph* text\n", D, 0),
    ("notes/html/to_data", "d", NOTES, D, 0),
    ("notes/latex/string", "s", NOTES, D, 2),
    ("notes/fodt/to_data", "d", NOTES, D, 5),
    ("metadata+variables/html/string", "s", b"Title: T\nfoo: bar & baz\nBase Header Level: 2\nLanguage: de\n\n# H\n\n[%foo] \"quoted\" [%title]\n", D, 0),
    ("critic-accept/html/string", "s", b"a {++b++} {--c--} {~~d~>e~~} {==f==}{>>g<<}\n", D | E["CRITIC_ACCEPT"], 0),
    ("opml-source/html/to_data", "d", OPML, D | E["PARSE_OPML"], 0),
    ("html-with-assets/to_data", "d", b"![a](i.png) <k@l.m>\n", D, 12),
    ("epub/to_data", "d", b"Title: E\n\n# H\n\n![a](i.png) text <e@f.g>\n", D, 1),
    ("textbundle-with-assets/to_data", "d", b"Title: B\nCSS: a.css\n\n![a](i.png) text ![f][r] <t@u.v>\n\n[r]: f.png\n", D, 8),
    ("opml-export/string", "s", NOTES, D, 9),
    ("compat/html/string", "s", b"Setext\n======\n\n<q@r.s> & text $m$ \\\\(n\\\\) $$o$$ [^f] {++c++} \"q\" x^2^ H~2~O [%v] [>ab] [#ci] [?gl] {{TOC}} `r`{=html}\n\n[^f]: n\n\n| t |\n|---|\n| c |\n\nterm\n: def\n", mmd.EXT_COMPAT, 0),
    ("compat/latex/string", "s", b"Setext\n------\n\n$m$ \\\\[n\\\\] [^f] \"q\" a--b\n\n[^f]: n\n", mmd.EXT_COMPAT, 2),
    ("no-notes-no-critic/html/to_data", "d", b"# H\n\ntext[^f] [#c] [?g] {++a++} {--b--} $m$ \"q\" <u@v.w>\n\n[^f]: n\n", E["SMART"], 0),
    ("all-extensions/html/string", "s", b"Title: T\n\n# H\n\ntext[^f] {++a++} $m$ \"q\"\n\n<div>*h*</div>\n\n[^f]: n\n", D | E["PROCESS_HTML"] | E["NO_LABELS"] | E["COMPLETE"] | E["OBFUSCATE"], 0),
    ("bom+crlf/html/to_data", "d", b"\xef\xbb\xbfTitle: B\r\n\r\n# H\r\n\r\ntext \"q\"\r\n", D, 0),
    ("bom-no-metadata/latex/to_data", "d", b"\xef\xbb\xbfplain *text* only\n", D, 2),
    ("mismatched-delimiters/html/string", "s", b"{++ins--} [a) (b] *c_ \"d' {==e~~} <f] $g\\\\) {--h++} [^i) {~~j==} `k'' {>>l--}\n\n| m ]\n|--|\n\n[n]: <o\n", D, 0),
    ("mismatched-delimiters/latex/to_data", "d", b"text {++ins--} [a) (b] *c_ \"d' {==e~~} end\n", D, 2),
    ("engine-reuse/convert html", "E0", NOTES, D, 0),
    ("engine-reuse/convert latex", "E0", NOTES, D, 2),
    ("engine-reuse/parse+export opml", "E1", NOTES, D, 9),
    ("engine-reuse/metadata query", "E2", NOTES, D, 0),
    # the editor use case: one engine over a caller-owned DString whose text is replaced between conversions
    ("engine-reuse/german-metadata html", "E0", b"Title: G\nLanguage: de\nQuotes Language: fr\nBase Header Level: 3\nfoo: bar\n\n# H\n\n\"q\" 'r' text[^a] [%foo]\n\n[^a]: n\n", D, 0),
    ("engine-reuse/bare html", "E0", b"# Head\n\n\"q\" 'r' text[^a] more[#c] [?g] [>ab] -- [%foo] [l]\n\n[^a]: n\n\n[#c]: C\n\n[?g]: G\n\n[>ab]: AB\n\n[l]: http://x.y/\n\n| a |\n|---|\n| b |\n", D, 0),
    ("engine-reuse/bare latex", "E0", b"Second\n======\n\n\"q\" text[^b] see [Second][]\n\n[^b]: m\n", D, 2),
    # the caller switches the engine's language between conversions (6th field: language code passed to mmd_engine_set_language first)
    ("engine-reuse/set-language german", "E0", b"\"q\" 'r' german text[^a]\n\n[^a]: n\n", D, 0, 2),
    ("engine-reuse/set-language hebrew", "E0", b"\"q\" 'r' hebrew text[^a] [#c]\n\n[^a]: n\n\n[#c]: C\n", D, 0, 6),
    ("engine-reuse/set-language english", "E0", b"\"q\" 'r' english text\n", D, 0, 0),
    # a second reused engine, created with the no-metadata option; an editor re-parses part of the text between conversions
    ("engine2-nometa/convert html", "F0", b"Key: value\nOther: x\n\n# H\n\npara one\n\npara two \"q\"\n", D | E["NO_METADATA"], 0),
    ("engine2-nometa/partial re-parse + convert html", "F3", b"Key: value\nOther: x\n\n# H\n\npara one\n\npara two \"q\"\n", D | E["NO_METADATA"], 0),
    ("engine2-nometa/partial re-parse + convert latex", "F3", b"Title: not metadata here\n\ntext[^a] more\n\n[^a]: n\n", D | E["NO_METADATA"], 2),
    ("engine-reuse/bom html", "E0", b"\xef\xbb\xbfTitle: B\n\n# H\n\ntext\n", D, 0),
    ("engine-reuse/latex-mode-metadata latex", "E0", b"Title: B\nlatex mode: beamer\nlatex header level: 2\n\n# S\n\n## F\n\ntext\n", D, 2),
]

def run_history(hist, want_all=False, perturb=0):
    """executed in a forked child: returns [(output bytes, source_unchanged)] per op and the global-state key"""
    if perturb:          # glibc fills every malloc'ed and freed block with a byte pattern: memory read before it is written shows up as different output
        ctypes.CDLL(None).mallopt(-6, perturb)
    L = mmd.lib(); L.vp_pool(0)
    engine = None; engine2 = None; res = []
    for oi in hist:
        name, kind, src, ext, fmt = OPS[oi][:5]; lang = OPS[oi][5] if len(OPS[oi]) > 5 else None
        if kind == "s":
            out = mmd._take(L.vp_raw_convert(src, ext, fmt, 0)); same = True
        elif kind == "d":
            buf = ctypes.create_string_buffer(src, len(src) + 4096); n = ctypes.c_size_t(0)
            out = mmd._take(L.vp_raw_to_data(buf, len(src) + 4096, ext, fmt, 0, ASSETS, ctypes.byref(n)), n.value)
            same = (buf.value == src) or bool(ext & (E["PARSE_OPML"] | E["PARSE_ITMZ"]))
        elif kind.startswith("F"):
            if engine2 is None: engine2 = L.vp_engine_new_d(src, ext)
            else: L.vp_engine_set_text(engine2, src)
            L.vp_engine_set_language(engine2, 0)
            if kind == "F3": L.vp_engine_parse_range(engine2, len(src) // 2, len(src) - len(src) // 2)        # partial re-parse of the second half
            out = mmd._take(L.vp_engine_convert(engine2, fmt)); same = L.vp_engine_source(engine2) == src
        else:
            if engine is None: engine = L.vp_engine_new_d(src, ext)
            else: L.vp_engine_set_text(engine, src)
            L.vp_engine_set_language(engine, lang or 0)        # the language an engine was given persists by design: every operation states its own
            if kind == "E0": out = mmd._take(L.vp_engine_convert(engine, fmt))
            elif kind == "E1": out = mmd._take(L.vp_engine_parse_export(engine, fmt))
            else:
                L.vp_engine_parse(engine)            # the text was replaced: the caller re-parses before querying (the query functions only parse an engine that has never been parsed)
                out = mmd._take(L.vp_engine_query(engine))
            same = L.vp_engine_source(engine) == src
        res.append((out, same))
    key = STATE() ^ (0 if engine is None else (0x9E3779B97F4A7C15 ^ L.vp_engine_state(engine))) ^ (0 if engine2 is None else ((0xC2B2AE3D27D4EB4F ^ L.vp_engine_state(engine2)) * 3 & 0xFFFFFFFFFFFFFFFF))
    return res, key

STATE = None
def in_child(fn, *a):
    r, w = os.pipe(); pid = os.fork()
    if pid == 0:
        os.close(r)
        import signal; signal.alarm(300)          # a conversion that never returns ends as a crash of this history
        try:
            data = pickle.dumps(fn(*a))
        except BaseException as e:
            import traceback; data = pickle.dumps(("error", traceback.format_exc()))
        os.write(w, struct.pack("q", len(data)))
        off = 0
        while off < len(data): off += os.write(w, data[off:off + 65536])
        os._exit(0)
    os.close(w); buf = b""
    while True:
        c = os.read(r, 1 << 20)
        if not c: break
        buf += c
    os.close(r); _, st = os.waitpid(pid, 0)
    if len(buf) < 8: return ("crash", st)
    return pickle.loads(buf[8:])

def run(tier):
    global STATE
    rep = core.Report("C05", tier, "model_checking")
    mmd.so_path(); mmd.init_worker()
    STATE, regs = G.hasher()
    rep.rule = ("breadth-first search over conversion histories in one process: %d operations (obfuscated and plain e-mail autolinks, notes/citations/glossary, cross references, metadata + variables, CriticMarkup accept, an OPML source, HTML with assets, EPUB, "
                "compat mode; through mmd_string_convert, mmd_d_string_convert_to_data and ONE reused engine over a caller-owned text that is replaced between conversions: convert, parse+export, metadata query, documents with and without language/header-level/latex-mode metadata); each history runs in a fresh forked process; state key = hash of every writable "
                "global of the library (inventory from nm on the current objects: %s) + everything a reused engine carries over (options, languages, stack sizes); only new keys are expanded; plus every operation under two heap fill patterns (memory read before written); invariant on every transition: the bytes equal the same conversion done first in a fresh process "
                "and the caller's source is unchanged (except the documented OPML replacement)" % (len(OPS), ", ".join(sorted({r[2] for r in regs}))))
    rep.assumptions = ["libc rand() is re-seeded and time() pinned before every conversion: identifiers that are unique by design are outside the statement", "random anchors/labels are not requested"]
    rep.extra["global_inventory"] = [dict(symbol=n, object=o, size=s) for _, s, n, o in regs]
    depth = 3 if tier == "quick" else 4
    t0 = time.time(); dl = core.deadline_s(tier)
    # reference: each op as the first conversion of a fresh process
    ref = {}
    for oi in range(len(OPS)):
        r = in_child(run_history, [oi])
        if r[0] in ("error", "crash"): rep.internal_errors.append("reference run of %s failed: %r" % (OPS[oi][0], r[1])); return rep.finish()
        ref[oi] = r[0][0][0]
    # uninitialised memory: every operation alone under two heap fill patterns must give the reference bytes
    t1 = time.time(); nper = 0
    for oi in range(len(OPS)):
        for pat in (0x5A, 0xA5):
            r = in_child(run_history, [oi], False, pat); nper += 1
            if r[0] in ("error", "crash"):
                rep.add_violation("history:crash-under-heap-fill:%s" % OPS[oi][0].split("/")[0], "%s crashed with malloc/free fill pattern 0x%02X: %r" % (OPS[oi][0], pat, r[1]), dict(history=[OPS[oi][0]], fill=pat), replay=dict(kind="c05", hist=[oi]))
            elif r[0][0][0] != ref[oi]:
                rep.add_violation("history:output-depends-on-uninitialised-memory:%s" % OPS[oi][0].split("/")[0], "%s gives different bytes when malloc'ed and freed memory is filled with 0x%02X" % (OPS[oi][0], pat),
                                  dict(history=[OPS[oi][0]], fill=pat, got=(r[0][0][0] or b"")[:300].decode("utf-8", "replace"), fresh=(ref[oi] or b"")[:300].decode("utf-8", "replace")), replay=dict(kind="c05", hist=[oi]))
    rep.add_level("heap-fill", nper, nper, True, time.time() - t1, nper, "every operation alone under glibc M_PERTURB fill patterns 0x5A and 0xA5: bytes equal the unperturbed reference")
    init_key = in_child(lambda: STATE())
    seen = {init_key}; frontier = [[]]; states = 1; trans = 0; lvl = 0; complete = True
    from concurrent.futures import ThreadPoolExecutor
    while frontier and lvl < depth:
        lvl += 1
        cand = [h + [o] for h in frontier for o in range(len(OPS))]
        outs = []
        with ThreadPoolExecutor(16) as ex:
            for c0 in range(0, len(cand), 1600):          # in slices, so that the time cap also holds inside a level
                if time.time() - t0 > dl * 0.8: complete = False; break
                outs += list(ex.map(lambda h: in_child(run_history, h), cand[c0:c0 + 1600]))
        cand = cand[:len(outs)]
        nxt = []
        for h, r in zip(cand, outs):
            trans += 1
            names = [OPS[o][0] for o in h]
            if r[0] in ("error", "crash"):
                rep.add_violation("history:crash", "history %r crashed: %r" % (names, r[1]), dict(history=names), replay=dict(kind="c05", hist=h)); continue
            res, key = r
            out, same = res[-1]; o = h[-1]
            if out != ref[o]:
                first_dep = next((OPS[x][0] for x in h[:-1] if run_dep(x)), "?")
                rep.add_violation("history:output-depends-on-history:%s" % OPS[o][0].split("/")[0], "after %r the conversion %s differs from the same conversion done first in a fresh process" % (names[:-1], OPS[o][0]),
                                  dict(history=names, got=(out or b"")[:400].decode("utf-8", "replace"), fresh=(ref[o] or b"")[:400].decode("utf-8", "replace")), replay=dict(kind="c05", hist=h))
            if not same:
                rep.add_violation("history:source-modified:%s" % OPS[o][0].split("/")[0], "conversion %s changed the caller's source text" % OPS[o][0], dict(history=names), replay=dict(kind="c05", hist=h))
            if key not in seen:
                seen.add(key); states += 1; nxt.append(h)
                if states % 5 == 2: rep.add_sample(dict(history=names, state_key="%016x" % key))
        frontier = nxt
        if time.time() - t0 > dl * 0.8 and lvl < depth: complete = False; break
    rep.states, rep.transitions, rep.traces = states, trans, trans
    rep.add_level("bfs-depth%d" % lvl, trans, trans, complete, time.time() - t0, states, "conversion histories up to depth %d over %d operations (only new global states expanded)" % (lvl, len(OPS)), frontier_left=len(frontier))
    return rep.finish()

def run_dep(x): return True

def replay(rec):
    global STATE
    mmd.so_path(); STATE, _ = G.hasher()
    h = rec["replay"]["hist"]
    print([OPS[o][0] for o in h]); r = in_child(run_history, h); print(r[0][-1][0][:600] if r[0] not in ("error", "crash") else r)
    print("fresh:", in_child(run_history, [h[-1]])[0][0][0][:600]); return 1
def prepare(): mmd.so_path()

META = dict(level="model_checking", engine="E2",
    technique="explicit-state breadth-first search over conversion histories executed in one real process (fresh fork per history), deduplicated on a hash of all of the library's writable globals; differential oracle against the fresh-process result",
    text="Every history up to the stated depth over an operation alphabet chosen to touch each piece of state that survives a conversion (the Knuth generator, the token pool, a reused engine and its stacks) is executed; after every step the returned bytes must equal what the same conversion returns as the first conversion of a fresh process, and the caller's source must be untouched.",
    note="the inventory of writable globals is re-derived with nm on every run and hashed as a whole, so newly introduced global state enters the state key automatically")
