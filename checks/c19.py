"""C19 DString vs the obvious string model (E2: BFS over operation histories on the real DString under ASan+UBSan)."""
import os
from vp import build, core, bfsrun

def exe():
    return build.link("asan", "c19", ["c19.c"])
def prepare(): exe()

def run(tier):
    rep = core.Report("C19", tier, "model_checking")
    rep.rule = ("breadth-first search over histories of the 12 DString operations with positions/lengths from {0,1,len-1,len,len+1,(size_t)-1} and payloads of "
                "{0,1,3,1022,1023,1024,1025,2049} bytes (+ a NUL-containing array for the binary append), from 10 start states (empty, foo, ababab and d_string_new on strings of 1022, 1023, 1024, 1025, 2048, 2049, 4096 bytes); state = (content, length, capacity); "
                "plus a length sweep (every payload length 0..4200 through every inserting operation); every transition is executed on the real DString (a trace validated against the implementation) and compared with a byte-vector model: content, "
                "recorded length, NUL terminator, capacity > length; ASan+UBSan watch the accesses")
    rep.assumptions = ["replace_text_in_range only with a non-empty pattern; a match straddling the end of the range is counted as unjudged",
                       "copy_substring 'to the end' from beyond the end is unjudged (header silent)"]
    depth = 2 if tier == "quick" else 3
    dl = core.deadline_s(tier)
    bfsrun.run_bfs(rep, exe(), [depth, int(dl * 0.8)], "bfs-depth%d" % depth, "all operation histories of depth <= %d from 10 start states (empty, foo, ababab and d_string_new on strings of 1022, 1023, 1024, 1025, 2048, 2049, 4096 bytes)" % depth)
    return rep.finish()

def replay(rec):
    rp = rec["replay"]
    import subprocess
    r = subprocess.run([exe()] + [str(a) for a in rp["args"]], env=core.driver_env())
    return 1

META = dict(level="model_checking", engine="E2",
    technique="explicit-state breadth-first search over operation histories executed on the real DString, compared step by step with a byte-vector reference model, under ASan+UBSan",
    text="All histories up to the stated depth over the full operation alphabet with boundary positions, lengths and payload sizes around the 1024-byte initial capacity and its doublings are executed on the implementation; every transition checks content, length, terminator and capacity against the model. States are deduplicated on everything a DString holds, so chains from non-initial states are covered.",
    note="trusted: the 10-line byte-vector model; ASan/UBSan")
