"""C04 all output formats carry the same text, escaped for the target (exhaustive cross: position x probe character x skeleton x format)."""
import itertools, re, string
import xml.parsers.expat as expat
from vp import core, mmd, pmap

E = mmd.EXT
EXT = E["NOTES"] | E["CRITIC"]            # smart typography off: quotes and dashes are then plain characters
FORMATS = [("html", 0), ("latex", 2), ("beamer", 3), ("memoir", 4), ("fodt", 5), ("opml", 9)]
CHARS = [c.encode() for c in string.printable if c not in "\t\n\r\x0b\x0c "] + [b"\xc3\xa9", b"\xe2\x80\xa0"]
# multi-character lexer tokens that are plain text when unmatched / outside their context
CHARS += [b"{{", b"}}", b"--", b"---", b"...", b"''", b"~>", b"{++", b"++}", b"{--", b"--}", b"{>>", b"<<}", b"{~~", b"~~}", b"{==", b"==}", b"$$", b"<!--", b"-->",
          b"[^", b"[#", b"[?", b"[>", b"[%", b"![", b"{=", b"``", b"##", b"://", b"<=", b"&&", b"%%", b"__"]
# backslash escapes: in text the backslash disappears and the character is plain text; in verbatim/math regions both stay
ESCP = [b"\\" + bytes([ch]) for ch in b'&<>"*#$_|~^%{}[]`\\']
CHARS += ESCP
# position: (name, template with {P}, kind)   kind: text | attr | verbatim | meta
POSITIONS = [
    ("paragraph", b"{P}\n", "text"), ("heading", b"# {P}\n", "text"), ("list-item", b"* {P}\n* other\n", "text"), ("table-cell", b"| {P} | x |\n|---|---|\n| y | z |\n", "text"),
    ("table-cell-spanning-then-cell", b"| {P} || x |\n|---|---|---|\n| y | z | w |\n", "text"), ("table-cell-after-spanning-cell", b"| a || {P} |\n|---|---|---|\n| y | z | w |\n", "text"), ("table-cell-spanning-last", b"| x | {P} ||\n|---|---|---|\n| y | z | w |\n", "text"),
    ("quote", b"> {P}\n", "text"), ("emphasis", b"*{P}*\n", "text"), ("link-text", b"[{P}](http://x.y/)\n", "text"), ("link-title", b"[t](http://x.y/ \"{P}\")\n", "attr"),
    ("url", b"[t](http://x.y/{P})\n", "attr"), ("image-alt", b"![{P}](i.png)\n", "attr"), ("footnote", b"x[^f]\n\n[^f]: {P}\n", "text"), ("definition", b"term\n: {P}\n", "text"),
    ("code-span", b"a `{P}` b\n", "verbatim"), ("code-block", b"```\n{P}\n```\n", "verbatim"), ("code-block-with-language", b"```python\n{P}\n```\n", "verbatim"), ("indented-code", b"    {P}\n", "verbatim"), ("math", b"a ${P}$ b\n", "verbatim"),
    # text that is written more than once (first use / re-use paths of the note writers)
    ("abbreviation-short-form-reused", b"[>{P}]: expansion\n\nuse [>{P}] and again [>{P}] end\n", "text"),
    ("glossary-term-reused", b"[?{P}]: definition\n\nuse [?{P}] and again [?{P}] end\n", "text"),
    ("footnote-reused", b"x[^f] y[^f] z\n\n[^f]: {P}\n", "text"),
    ("abbreviation-expansion", b"[>AB]: {P}\n\nuse [>AB] and again [>AB] end\n", "text"),
    # CriticMarkup resolved by the writers themselves (library callers set the accept/reject option without editing the text first)
    ("critic-highlight-accept", b"a {=={P}==} b\n", "text"), ("critic-highlight-reject", b"a {=={P}==} b\n", "text"), ("critic-addition-accept", b"a {++{P}++} b\n", "text"),
    ("critic-deletion-reject", b"a {--{P}--} b\n", "text"), ("critic-substitution-accept", b"a {~~old~>{P}~~} b\n", "text"), ("critic-substitution-reject", b"a {~~{P}~>new~~} b\n", "text"),
    ("metadata-value", None, "meta"),
]
LATEX_MAY_OMIT = {"link-title"}          # LaTeX has no place for a link title
POS_EXT = {"critic-highlight-accept": E["CRITIC_ACCEPT"], "critic-addition-accept": E["CRITIC_ACCEPT"], "critic-substitution-accept": E["CRITIC_ACCEPT"],
           "critic-highlight-reject": E["CRITIC_REJECT"], "critic-deletion-reject": E["CRITIC_REJECT"], "critic-substitution-reject": E["CRITIC_REJECT"]}
SKELETONS = [(b"", b""), (b"qb10 before\n\n", b"\nqb20 after\n"), (b"* qb11 item\n\n# qb10 head\n\n", b"\n> qb20 quote\n\n    qb21 code\n\nqb22 [qb23](u) `qb24`\n")]
ESC_CMDS = {b"\\textbackslash", b"\\ensuremath", b"\\sim", b"\\slash", b"\\textbar", b"\\textasciitilde"}
def latex_cmds(t): return sorted(x for x in re.findall(rb"\\[a-zA-Z]+", t) if x not in ESC_CMDS)
QUOTE_OK = {b'"': [b"''", b"``", b'"'], b"'": [b"'", b"`"]}
RESERVED_LATEX = {b"\\": [b"\\textbackslash{}"], b"{": [b"\\{"], b"}": [b"\\}"], b"$": [b"\\$"], b"%": [b"\\%"], b"&": [b"\\&"], b"#": [b"\\#"], b"_": [b"\\_"],
                  b"^": [b"\\^{}"], b"~": [b"\\ensuremath{\\sim}", b"\\~{}", b"\\textasciitilde{}"]}
UNESC = [(b"\\textbackslash{}", b"\\"), (b"\\ensuremath{\\sim}", b"~"), (b"\\~{}", b"~"), (b"\\slash{}", b"/"), (b"\\^{}", b"^"), (b"$<$", b"<"), (b"$>$", b">"), (b"\\textbar{}", b"|"),
         (b"\\#", b"#"), (b"\\{", b"{"), (b"\\}", b"}"), (b"\\$", b"$"), (b"\\%", b"%"), (b"\\&", b"&"), (b"\\_", b"_")]
def latex_unescape(s):
    out = b""; i = 0
    while i < len(s):
        for a, b in UNESC:
            if s.startswith(a, i): out += b; i += len(a); break
        else:
            out += s[i:i + 1]; i += 1
    return out

def parse_xml(doc):
    """returns (list of character-data runs joined, list of attribute values, element name sequence) or raises"""
    chars = []; attrs = []; names = []
    p = expat.ParserCreate(); p.UseForeignDTD(True)
    p.CharacterDataHandler = chars.append
    def se(n, a): names.append(n); attrs.extend(a.values())
    p.StartElementHandler = se
    p.EndElementHandler = lambda n: names.append("/" + n)
    p.Parse(doc, True)
    return "".join(chars), attrs, names

def between(text, a="qz01", b="qz02"):
    m = re.search(re.escape(a) + "(.*?)" + re.escape(b), text, re.S)
    return m.group(1) if m else None

def latex_structure(tex):
    """\\begin/\\end in order and braces balanced outside verbatim environments; returns error or None"""
    stack = []; depth = 0; i = 0; n = len(tex)
    verb_env = (b"verbatim", b"lstlisting", b"adjustwidth")
    while i < n:
        if tex.startswith(b"\\begin{", i):
            j = tex.find(b"}", i); env = tex[i + 7:j]; stack.append(env); i = j + 1
            if env in (b"verbatim", b"lstlisting"):
                k = tex.find(b"\\end{" + env + b"}", i)
                if k < 0: return "unterminated %s" % env.decode()
                i = k
            continue
        if tex.startswith(b"\\end{", i):
            j = tex.find(b"}", i); env = tex[i + 5:j]
            if env == b"document" and not stack: i = j + 1; continue          # a complete document opens its document environment inside the \\input leader file
            if not stack or stack[-1] != env: return "\\end{%s} closes %r" % (env.decode("latin-1"), stack[-1:] )
            stack.pop(); i = j + 1; continue
        c = tex[i:i + 1]
        if c == b"\\": i += 2; continue
        if c == b"{": depth += 1
        elif c == b"}":
            depth -= 1
            if depth < 0: return "unbalanced }"
        i += 1
    if stack: return "unclosed environment %s" % stack[-1].decode("latin-1")
    if depth: return "unbalanced {"
    return None

def make_doc(pi, c, tight, sk):
    name, tpl, kind = POSITIONS[pi]
    probe = (b"qz01" + c + b"qz02") if tight else (b"qz01 " + c + b" qz02")
    pre, post = SKELETONS[sk]
    if kind == "meta":
        return b"Title: " + probe + b"\n\n" + (pre or b"body\n") + post, probe
    return pre + tpl.replace(b"{P}", probe) + post, probe

WORDS = re.compile(rb"q[bz]\d\d")
def make_case():
    combos = [(pi, ci, t, sk, fi) for pi in range(len(POSITIONS)) for ci in range(len(CHARS)) for t in (0, 1) for sk in range(len(SKELETONS)) for fi in range(len(FORMATS))]
    def case(idx):
        pi, ci, tight, sk, fi = combos[idx]
        pname, tpl, kind = POSITIONS[pi]; c = CHARS[ci]; fname, fmt = FORMATS[fi]
        # generator hygiene (structure, not text)
        if c == b"|" and pname.startswith("table-cell"): return (None, [], dict(skipped=1))
        if c in (b"[", b"]") and pname in ("link-text", "image-alt"): return (None, [], dict(skipped=1))
        if c == b"\\" and not tight: return (None, [], dict(skipped=1))          # backslash + space is the non-breaking-space escape
        if c in (b"`",) and pname in ("code-span",): return (None, [], dict(skipped=1))
        if c in (b"*", b"_") and pname == "emphasis": return (None, [], dict(skipped=1))
        if c in (b"$",) and pname == "math": return (None, [], dict(skipped=1))
        if c in (b")", b"(", b"<", b">", b"\"", b"'", b" ") and pname == "url": return (None, [], dict(skipped=1))
        if c == b"\"" and pname == "link-title": return (None, [], dict(skipped=1))
        if kind == "meta" and c == b":" : return (None, [], dict(skipped=1))
        if pname == "url" and (not tight or c == b"\\"): return (None, [], dict(skipped=1))      # a URL with spaces is not a URL; backslashes are escape characters there
        if pname == "math" and any(x in c for x in b"{}\\$%#&_^~") and fmt in (2, 3, 4): return (None, [], dict(skipped=1))   # math is the author's own LaTeX
        doc, probe = make_doc(pi, c, tight, sk)
        base_doc, _ = make_doc(pi, b"x", tight, sk)
        if c in ESCP:
            if kind in ("meta", "attr") or pname in ("abbreviation-short-form-reused", "glossary-term-reused", "abbreviation-expansion"): return (None, [], dict(skipped=1))          # escapes are defined for running text; attribute/metadata strings and note keys/expansions are taken as written
            if c[1:] == b"`" and pname == "code-span": return (None, [], dict(skipped=1))
            if c[1:] == b"|" and pname.startswith("table-cell"): return (None, [], dict(skipped=1))
            if c[1:] in (b"[", b"]") and pname == "link-text": return (None, [], dict(skipped=1))
            if kind == "text": c = c[1:]                                                  # what the reader must see
        complete = kind == "meta" or pname == "abbreviation-expansion"        # LaTeX shows an expansion only in the preamble definitions
        ext = EXT | POS_EXT.get(pname, 0) | (E["COMPLETE"] if complete else (E["SNIPPET"] | E["NO_METADATA"]))
        if pname in POS_EXT and (any(x in c for x in (b"{", b"}", b"~", b"+", b"-", b"=", b">", b"<")) or fname == "opml"): return (None, [], dict(skipped=1))    # characters of the marks themselves would change the mark; OPML stores the source
        out = mmd.convert(doc, ext, fmt) if fmt != 5 else mmd.convert_to_data(doc, ext, fmt, 0, None)
        base = mmd.convert(base_doc, ext, fmt) if fmt != 5 else mmd.convert_to_data(base_doc, ext, fmt, 0, None)
        case_d = dict(src=doc.decode("latin-1"), position=pname, char=c.decode("latin-1"), tight=tight, format=fname)
        v = []
        sig = lambda s: "text:%s:%s:%s" % (s, fname if fname not in ("beamer", "memoir") else "latex", pname)
        ctext = c.decode("utf-8")
        if fname in ("html", "fodt", "opml"):
            wrap = (lambda x: b"<r>" + x + b"</r>") if (fname == "html" and not complete) else (lambda x: x)
            try:
                text, attrs, names = parse_xml(wrap(out))
            except expat.ExpatError as e:
                if fname == "fodt" and c == b"<<}" and kind == "verbatim":
                    return (pmap.h64(doc + bytes([fi])), [("text:odf:critic-comment-close-in-verbatim-text", "flat ODF does not parse for %r (%s)" % (doc, e), case_d)], dict(judged=1))
                return (pmap.h64(doc + bytes([fi])), [(sig("not-well-formed"), "%s output does not parse (%s) for %r" % (fname, e, doc), case_d)], dict(judged=1))
            try: btext, battrs, bnames = parse_xml(wrap(base))
            except expat.ExpatError: bnames = names
            if names != bnames and fname != "opml":
                return (pmap.h64(doc + bytes([fi])), [], dict(structure_changed=1))          # the probe changed the markup structure of its position: not a text position any more
            pool = [text] + attrs
            want = (ctext if tight else " " + ctext + " ")
            found = [m for p in pool for m in re.findall("qz01(.*?)qz02", p, re.S)]          # every occurrence (first use and re-use)
            if fname == "opml":
                # the source is stored verbatim: the probe must be present as written
                if not any(probe.decode("utf-8") in p for p in pool): v.append((sig("lost-or-altered"), "the source text %r is not stored verbatim in the OPML" % probe, case_d))
            elif not found:
                v.append((sig("markers-lost"), "marker words around the probe are missing from the output", case_d))
            elif not any(f == want or f.strip() == want.strip() for f in found):
                v.append((sig("char-altered"), "between the markers the output carries %r, the source has %r" % (found[0], want), case_d))
            elif pname.endswith("reused") or pname == "abbreviation-expansion":
                bad = [f for f in found if not (f == want or f.strip() == want.strip())]
                if bad: v.append((sig("char-altered-in-a-later-occurrence"), "one occurrence carries %r, the source has %r" % (bad[0], want), case_d))
            # order of body marker words
            if fname != "opml":
                src_words = [w for w in WORDS.findall(doc) if not (kind == "meta" and w in (b"qz01", b"qz02"))]
                out_words = [w.encode() for w in re.findall(r"q[bz]\d\d", text)]
                if kind == "text" or kind == "verbatim":
                    seq = [w for w in out_words if w in src_words]
                    dedup = [w for i, w in enumerate(seq) if i == 0 or seq[i - 1] != w]
                    if pname != "footnote" and not pname.endswith("reused") and pname != "abbreviation-expansion" and dedup != src_words and sorted(set(dedup)) == sorted(set(src_words)) and names == bnames:
                        v.append((sig("order"), "marker words appear as %r, source order %r" % (dedup, src_words), case_d))
                    missing = [w for w in src_words if w not in out_words]
                    if missing: v.append((sig("word-lost"), "marker words %r are missing from the output" % missing, case_d))
        else:
            if latex_cmds(out) != latex_cmds(base):
                return (pmap.h64(doc + bytes([fi])), [], dict(structure_changed=1))
            if pname == "url":
                if not re.search(rb"qz01(.*?)qz02", out, re.S): return (pmap.h64(doc + bytes([fi])), [(sig("markers-lost"), "the URL is missing from the LaTeX output", case_d)], dict(judged=1))
                return (pmap.h64(doc + bytes([fi])), [], dict(judged=1))     # \\href takes the URL verbatim (hyperref); not judged for escaping
            if pname in ("abbreviation-short-form-reused", "glossary-term-reused") and any(x in c for x in b"{}\\$%#&_^~"):
                # the short form / term is used verbatim as the glossaries key (\gls{key}); reserved characters in it are one recorded finding
                if re.search(rb"\\gls\{[^}]*qz01", out):
                    return (pmap.h64(doc + bytes([fi])), [("text:latex:glossary-key-with-reserved-character", "LaTeX uses the short form verbatim as a key: %r" % re.findall(rb"\\gls\{[^}]*\}?", out)[:1], case_d)], dict(judged=1))
            err = latex_structure(out)
            berr = latex_structure(base)
            if err and (not berr or berr == err):          # the same error in the neighbouring document means the position itself is rendered unbalanced, not that the probe did it
                v.append((sig("nesting"), "LaTeX structure: %s for %r" % (err, doc), case_d))
            m = re.search(rb"qz01(.*?)qz02", out, re.S)
            if not m:
                # judged against the source, not against the same library's rendering of a neighbouring document: text that no LaTeX rendering shows
                # (a footnote never called, an expansion that only the preamble defines in snippet mode) is listed explicitly
                if re.search(rb"qz01(.*?)qz02", base, re.S) or pname not in LATEX_MAY_OMIT: v.append((sig("markers-lost"), "marker words around the probe are missing from the LaTeX output", case_d))
            elif kind != "meta":
                mid = m.group(1); want = c if tight else b" " + c + b" "
                if c in RESERVED_LATEX and kind != "verbatim":
                    if mid.strip() not in RESERVED_LATEX[c]:
                        if out.count(b"\\") - base.count(b"\\") > 3 or b"\\begin" in mid: return (pmap.h64(doc + bytes([fi])), [], dict(structure_changed=1))
                        v.append((sig("reserved-char-raw-or-misescaped"), "LaTeX carries %r for the reserved character %r" % (mid, c), case_d))
                elif kind == "verbatim" and pname in ("code-block", "code-block-with-language", "indented-code"):
                    if mid.strip() != c: v.append((sig("verbatim-altered"), "verbatim region carries %r for %r" % (mid, c), case_d))
                elif c in QUOTE_OK and mid.strip() in QUOTE_OK[c]:
                    pass
                elif c == b"~>" and b"&gt;" in mid:
                    v.append(("text:latex:stray-critic-divider-written-as-html-entity", "LaTeX carries %r for a stray '~>'" % mid, case_d))
                elif latex_unescape(mid).strip() != c:
                    if b"{" in mid.replace(b"\\{", b"") and not c in (b"{", b"}"): return (pmap.h64(doc + bytes([fi])), [], dict(structure_changed=1))
                    v.append((sig("char-altered"), "LaTeX carries %r (unescaped %r) for %r" % (mid, latex_unescape(mid), c), case_d))
        return (pmap.h64(doc + bytes([fi])), v, dict(judged=1))
    return case, len(combos)

# ---- nesting of the sectioning markup: heading trees x heading styles x header-level metadata x the LaTeX-family writers and the XML writers
HMETA = [b"", b"Base Header Level: 2\n\n", b"Base Header Level: 3\n\n", b"LaTeX Header Level: 3\nHTML Header Level: 2\n\n", b"Title: T\nBase Header Level: 4\n\n"]
def heading_src(level, style, k):
    t = b"qh%02d title" % k
    if style == 1 and level <= 2: return t + b"\n" + (b"=====" if level == 1 else b"-----") + b"\n\nqp%02d text\n\n" % k
    if style == 2: return b"#" * level + b" " + t + b" " + b"#" * level + b"\n\nqp%02d text\n\n" % k
    return b"#" * level + b" " + t + b"\n\nqp%02d text\n\n" % k
def nesting_cases(maxn):
    out = []
    for n in range(1, maxn + 1):
        for lv in itertools.product((1, 2, 3), repeat=n):
            for st in itertools.product((0, 1, 2), repeat=n):
                if any(s == 1 and l > 2 for s, l in zip(st, lv)): continue
                for m in range(len(HMETA)):
                    for fi in (1, 2, 3, 4, 0): out.append((lv, st, m, fi))
    return out
def nesting_case(cl):
    def case(idx):
        lv, st, m, fi = cl[idx]; fname, fmt = FORMATS[fi]
        doc = HMETA[m] + b"".join(heading_src(l, s, k) for k, (l, s) in enumerate(zip(lv, st)))
        mode = E["SNIPPET"] if fmt in (2, 3, 4) else E["COMPLETE"]          # a complete LaTeX document opens its document environment in an \\input file
        out = mmd.convert(doc, EXT | mode, fmt) if fmt != 5 else mmd.convert_to_data(doc, EXT | mode, fmt, 0, None)
        case_d = dict(src=doc.decode("latin-1"), format=fname, position="sectioning"); v = []
        if fname in ("html", "fodt"):
            try: parse_xml(out)
            except expat.ExpatError as e: v.append(("text:not-well-formed:%s:sectioning" % fname, "%s does not parse (%s)" % (fname, e), case_d))
        else:
            err = latex_structure(out)
            if err: v.append(("text:nesting:%s:sectioning" % fname, "LaTeX structure: %s" % err, case_d))
            if fname == "beamer":
                seq = re.findall(rb"\\(begin|end)\{frame\}", out)
                if any(a == b for a, b in zip(seq, seq[1:])) or (seq and (seq[0] != b"begin" or seq[-1] != b"end")):
                    v.append(("text:nesting:beamer:frames", "frames do not alternate begin/end: %r" % seq[:12], case_d))
        words = [w for w in re.findall(rb"q[hp]\d\d", out)]
        want = [w for w in re.findall(rb"q[hp]\d\d", doc)]
        if [w for i, w in enumerate(words) if w in want and (i == 0 or words[i - 1] != w)][:len(want)] != want and sorted(set(words) & set(want)) != sorted(set(want)):
            v.append(("text:word-lost:%s:sectioning" % fname, "heading or paragraph words are missing: output has %r" % sorted(set(words)), case_d))
        return (pmap.h64(doc + bytes([fi])), v, dict(judged=1))
    return case

def run(tier):
    rep = core.Report("C04", tier, "exploration")
    rep.rule = ("exhaustive cross: %d text positions x %d probe characters (printable ASCII + two multi-byte) x {tight, spaced} x %d skeleton documents x 6 formats; the probe sits between unique marker words; oracles: XML outputs parse (expat) and the character "
                "data / attribute value between the markers is exactly the probe; LaTeX carries a legal escape of each reserved character and unescapes to the probe; verbatim regions reproduce the byte; body marker words appear once in source order; "
                "LaTeX environments and braces balance; a probe that changes the markup structure of its position (element sequence differs from the same document with 'x') is counted as structure_changed, not judged; distinct = distinct (document, format)" % (len(POSITIONS), len(CHARS), len(SKELETONS)))
    rep.assumptions = ["smart typography is off so that quotes and dashes are plain characters", "documents contain no raw HTML nor raw-source passthrough"]
    mmd.so_path()
    case, n = make_case()
    res = pmap.pmap(n, case, init_fn=mmd.init_worker, deadline_s=core.deadline_s(tier) * 0.9)
    pmap.fold(rep, "cross", n, res, "positions x characters x spacing x skeletons x formats")
    cl = nesting_cases(3 if tier == "quick" else 4)
    res = pmap.pmap(len(cl), nesting_case(cl), init_fn=mmd.init_worker, deadline_s=core.deadline_s(tier) * 0.9)
    pmap.fold(rep, "sectioning", len(cl), res, "heading level sequences up to length %d x {ATX, Setext, closed ATX} x 5 header-level metadata blocks x {latex, beamer, memoir, fodt, html}: environments, frames and elements nest, no heading or paragraph lost" % (3 if tier == "quick" else 4))
    d, _ = make_doc(7, b"&", 0, 2); rep.add_sample(dict(src=d.decode("latin-1"), position="link-title", char="&"))
    d, _ = make_doc(13, b"<", 1, 1); rep.add_sample(dict(src=d.decode("latin-1"), position="code-block", char="<"))
    return rep.finish()

def replay(rec):
    c = rec["cases"][0]; src = c["src"].encode("latin-1"); fmt = dict(FORMATS)[c["format"]]
    print(mmd.convert(src, EXT | E["SNIPPET"], fmt).decode("utf-8", "replace")); return 1
def prepare(): mmd.so_path()

META = dict(level="exploration", engine="E5",
    technique="exhaustive cross product of text positions x probe characters x skeletons x formats; marker-word tracking through every writer with independent XML parsing and a LaTeX escape table",
    text="Every printable character is placed, tight and spaced, between unique marker words in every position where document text reaches the output, inside three skeleton documents, and rendered by all six textual writers; the text recovered from the output (after undoing the target's escaping) must be the character written, reserved characters must appear only escaped, marker words must survive once and in order, and the markup must nest.",
    note="trusted: expat, the LaTeX escape table (10 reserved characters); structure-changing probes are counted and excluded, never judged")
