"""C03 layer 3: reference renderer for the documented HTML of the constructs named in the property.
Abstract documents (trees of blocks with inline nodes) are serialised to MultiMarkdown and, independently, rendered to the
HTML the syntax guide prescribes; the library's output must equal it byte for byte."""
import itertools, re
from vp import core, mmd, pmap

def esc(t): return t.replace("&", "&amp;").replace("<", "&lt;").replace(">", "&gt;").replace('"', "&quot;")

# inline nodes: ("t",text) ("em",[..]) ("st",[..]) ("code",text) ("link",[..],url,title) ("br",) ("auto",url) ("img",alt,url,title) ("esc",ch) ("ent",name) ("raw", source, html)
def rin(ns):
    o = ""
    for n in ns:
        k = n[0]
        if k == "t": o += esc(n[1])
        elif k == "em": o += "<em>" + rin(n[1]) + "</em>"
        elif k == "st": o += "<strong>" + rin(n[1]) + "</strong>"
        elif k == "code": o += "<code>" + esc(n[1]) + "</code>"
        elif k == "link": o += '<a href="%s"%s>%s</a>' % (n[2], (' title="%s"' % esc(n[3])) if n[3] else "", rin(n[1]))
        elif k == "auto": o += '<a href="%s">%s</a>' % (n[1], esc(n[1]))
        elif k == "br": o += "<br />\n"
        elif k == "img": o += '<img src="%s" alt="%s"%s />' % (n[2], esc(n[1]), (' title="%s"' % esc(n[3])) if n[3] else "")
        elif k == "esc": o += esc(n[1])
        elif k == "ent": o += "&" + n[1] + ";"
        elif k == "raw": o += n[2]
    return o
def sin(ns, em="*"):
    o = ""
    for n in ns:
        k = n[0]
        if k == "t": o += n[1]
        elif k == "em": o += em + sin(n[1], em) + em
        elif k == "st": o += em * 2 + sin(n[1], em) + em * 2
        elif k == "code": o += "`" + n[1] + "`"
        elif k == "link": o += "[" + sin(n[1], em) + "](" + n[2] + ((' "%s"' % n[3]) if n[3] else "") + ")"
        elif k == "auto": o += "<" + n[1] + ">"
        elif k == "br": o += "  \n"
        elif k == "img": o += "![" + n[1] + "](" + n[2] + ((' "%s"' % n[3]) if n[3] else "") + ")"
        elif k == "esc": o += "\\" + n[1]
        elif k == "ent": o += "&" + n[1] + ";"
        elif k == "raw": o += n[1]
    return o
def plain(ns):
    o = ""
    for n in ns:
        if n[0] in ("t", "code", "esc"): o += n[1]
        elif n[0] in ("em", "st", "link"): o += plain(n[1])
    return o
def label(ns): return re.sub(r"[^0-9a-z._:\-]", "", plain(ns).lower())

# blocks: ("p",inl) ("h",level,inl,style) ("hr",) ("fence",text,lang) ("icode",text) ("bq",[blocks]) ("ul"/"ol",tight,[items]) ("lit", source, html, mmd_only)
def rbl(bs, labels=True, tight=False):
    out = []
    for b in bs:
        k = b[0]
        if k == "p": out.append(rin(b[1]) if tight else "<p>" + rin(b[1]) + "</p>")
        elif k == "h": out.append("<h%d%s>%s</h%d>" % (b[1], (' id="%s"' % label(b[2])) if labels else "", rin(b[2]), b[1]))
        elif k == "hr": out.append("<hr />")
        elif k == "fence": out.append("<pre><code%s>%s\n</code></pre>" % ((' class="%s"' % b[2]) if b[2] else "", esc(b[1])))
        elif k == "icode": out.append("<pre><code>%s\n</code></pre>" % esc(b[1]))
        elif k == "bq": out.append("<blockquote>\n" + rbl(b[1], labels) + "\n</blockquote>")
        elif k in ("ul", "ol"):
            items = ["<li>" + rbl(it, labels, tight=bool(b[1])) + "</li>" for it in b[2]]
            out.append("<%s>\n%s\n</%s>" % (k, "\n".join(items), k))
        elif k == "lit": out.append(b[2])
    return "\n\n".join(out)
def sbl(bs, bullet="*", em="*"):
    out = []
    for b in bs:
        k = b[0]
        if k == "p": out.append(sin(b[1], em))
        elif k == "h":
            if b[3] == "atx": out.append("#" * b[1] + " " + sin(b[2], em))
            elif b[3] == "atxc": out.append("#" * b[1] + " " + sin(b[2], em) + " " + "#" * b[1])
            else: out.append(sin(b[2], em) + "\n" + ("===" if b[1] == 1 else "---"))
        elif k == "hr": out.append("* * *")
        elif k == "fence": out.append("```" + (b[2] or "") + "\n" + b[1] + "\n```")
        elif k == "icode": out.append("\n".join("    " + l for l in b[1].split("\n")))
        elif k == "bq": out.append("\n".join(((">" + l if l.startswith("    ") else "> " + l) if l else ">") for l in sbl(b[1], bullet, em).rstrip("\n").split("\n")))
        elif k in ("ul", "ol"):
            its = []
            for i, it in enumerate(b[2]):
                m = bullet if k == "ul" else "%d." % (i + 1)
                text = sbl(it, bullet, em).rstrip("\n")
                if b[1]: text = text.replace("\n\n", "\n", 1) if (len(it) == 2 and it[1][0] in ("ul", "ol") and not it[1][1]) else text.replace("\n\n", "\n")          # tight item: no blank line before a nested list (a loose nested list keeps its own blank lines)
                body = text.split("\n")
                its.append(m + " " + body[0] + "".join("\n" + ("    " + l if l else "") for l in body[1:]))
            out.append(("\n" if b[1] else "\n\n").join(its))
        elif k == "lit": out.append(b[1])
    return "\n\n".join(out) + "\n"

INL = [[("t", "plain words")], [("t", "an "), ("em", [("t", "emph")]), ("t", " word")], [("t", "a "), ("st", [("t", "strong")]), ("t", " b")], [("t", "x "), ("code", "c<&>d"), ("t", " y")], [("t", "x "), ("code", "a \\<b\\> \\\" \\& \\* \\\\ z"), ("t", " y")],
       [("t", "see "), ("link", [("t", "text")], "http://x.y/", "")], [("link", [("em", [("t", "e")])], "http://x.y/", "Ti tle"), ("t", " end")], [("t", "l1"), ("br",), ("t", "l2")], [("auto", "http://a.b/c")],
       [("t", "a "), ("esc", "*"), ("t", " b "), ("ent", "copy"), ("t", " & < c")], [("st", [("t", "s "), ("em", [("t", "e")])]), ("t", " t")], [("t", "i "), ("img", "alt", "i.png", ""), ("t", " j")],
       [("t", "x"), ("raw", "^2^", "<sup>2</sup>"), ("t", " H"), ("raw", "~2~", "<sub>2</sub>"), ("t", "O")],
       [("t", "math "), ("raw", "\\\\(x^2\\\\)", '<span class="math">\\(x^2\\)</span>'), ("t", " end")],
       [("t", "a snake_case_name and 5 * 3 * 2 stay literal")], [("t", "under_score "), ("em", [("t", "e")]), ("t", " x_y")]]
# documented constructs whose HTML is taken from the syntax guide (MMD mode only)
LITS = [
 ("lit", "|a|b|c|\n|:--|:-:|--:|\n|d|e|f|", '<table>\n<colgroup>\n<col style="text-align:left;"/>\n<col style="text-align:center;"/>\n<col style="text-align:right;"/>\n</colgroup>\n\n<thead>\n<tr>\n\t<th style="text-align:left;">a</th>\n\t<th style="text-align:center;">b</th>\n\t<th style="text-align:right;">c</th>\n</tr>\n</thead>\n\n<tbody>\n<tr>\n\t<td style="text-align:left;">d</td>\n\t<td style="text-align:center;">e</td>\n\t<td style="text-align:right;">f</td>\n</tr>\n</tbody>\n</table>', True),
 ("lit", "ref [link text][r1] here\n\n[r1]: http://r.s/ \"Ref T\"", '<p>ref <a href="http://r.s/" title="Ref T">link text</a> here</p>', False),
 ("lit", "![figure cap](f.png)", '<figure>\n<img src="f.png" alt="figure cap" />\n<figcaption>figure cap</figcaption>\n</figure>', True),
]
# heading texts whose first character is a legal label character other than a letter, or is dropped from the label
HTXT = [[("t", ":colon first")], [("t", "-v option x")], [("t", ".NET notes")], [("t", "9 lives")], [("t", "(paren) first")], [("t", "Mixed.Case-And_More 2")], [("t", "_under first")]]
LEAF = [("p", i) for i in INL] + [("h", (1, 3, 2, 2, 1, 1, 4)[n], t, ("atx", "atxc", "setext")[n % 3]) for n, t in enumerate(HTXT)] + [("h", 1, INL[0], "atx"), ("h", 2, INL[1], "atxc"), ("h", 1, INL[0], "setext"), ("h", 2, INL[2], "setext"), ("h", 6, INL[3], "atx"), ("hr",),
                                  ("fence", "code <&>\nl2", "perl"), ("fence", "x", None), ("icode", "ind <&>\n  more"), ("fence", "esc \\< \\> \\\" \\& \\*", None), ("fence", "two trailing spaces  \n one leading space\n  two\nend ", None), ("icode", "esc \\< \\> \\\" \\&")] + LITS
NP = len(INL)
def containers():
    out = []
    for a in LEAF:
        if a[0] != "lit": out.append(("bq", [a]))
    out.append(("ul", True, [[("p", INL[0])], [("p", INL[1])]]))
    out.append(("ol", True, [[("p", INL[2])], [("p", INL[3])], [("p", INL[4])]]))
    for a, b in itertools.product([l for l in LEAF[:NP + 6] if l[0] != "lit"], repeat=2):
        if a[0] == "p" and b[0] == "p":
            out.append(("ul", False, [[a], [b]])); out.append(("ol", True, [[("p", a[1])], [("p", b[1])]]))
        out.append(("bq", [a, b]))
    for i in INL:
        out.append(("ol", False, [[("p", i)], [("p", INL[0])]])); out.append(("ol", False, [[("p", INL[0])], [("p", i)]]))
        out.append(("ul", True, [[("p", i)], [("p", INL[0])]])); out.append(("ol", True, [[("p", INL[0])], [("p", i)]]))
        out.append(("ul", False, [[("p", INL[0])], [("p", i)]]))
    out.append(("ul", False, [[("p", INL[0]), ("p", INL[1])], [("p", INL[2])]]))
    out.append(("ul", False, [[("p", INL[0]), ("ul", True, [[("p", INL[1])]])], [("p", INL[2])]]))
    out.append(("ul", True, [[("p", INL[0]), ("ul", True, [[("p", INL[1])], [("p", INL[3])]])], [("p", INL[2])]]))
    # every combination of tight/loose outer and inner lists, both kinds, nested in the first or the last item
    for ok, ik, ot, it_, last in itertools.product(("ul", "ol"), ("ul", "ol"), (True, False), (True, False), (False, True)):
        if ot and not it_ and not last: continue          # a blank line inside the first item of a tight list is also a blank line between the outer items: not a tight list any more
        inner = (ik, it_, [[("p", INL[1])], [("p", INL[3])]])
        items = [[("p", INL[0])], [("p", INL[2]), inner]] if last else [[("p", INL[0]), inner], [("p", INL[2])]]
        out.append((ok, ot, items))
    out.append(("bq", [("bq", [("p", INL[1])])]))
    out.append(("bq", [("ul", True, [[("p", INL[0])], [("p", INL[2])]])]))
    return out

def uses(b, pred):
    if pred(b): return True
    if b[0] == "bq": return any(uses(x, pred) for x in b[1])
    if b[0] in ("ul", "ol"): return any(uses(x, pred) for it in b[2] for x in it)
    return False
def mmd_only(b): return uses(b, lambda x: x[0] == "fence" or (x[0] == "lit" and x[3]) or (x[0] in ("p", "h") and any(n[0] == "raw" for n in x[1 if x[0] == "p" else 2])))
def excluded_pair(a, b):
    """generator ambiguities (stated, not discovered): adjacent lists of one kind are one list; indented code after a list is a continuation;
       two indented blocks are one; a list/indented code after a quote or list is lazily continued"""
    la, lb = a[0], b[0]
    if la in ("ul", "ol") and lb in ("ul", "ol"): return True
    if la in ("ul", "ol") and lb == "icode": return True
    if la == "icode" and lb == "icode": return True
    if la == "bq" and lb == "bq": return True
    if la == "lit" and lb == "lit" and a[1] == b[1]: return True          # the same construct twice (two tables without text between them merge)
    return False

MODES = [("mmd", mmd.EXT_DEFAULT & ~mmd.EXT["SMART"], True), ("compat", mmd.EXT_COMPAT, False)]
def doc_list(tier):
    BL = LEAF + containers()
    docs = [[a] for a in BL]
    first = BL[:NP + 13] + containers()[:20]
    docs += [[a, b] for a in first for b in first if not excluded_pair(a, b)]
    if tier != "quick":
        small = LEAF[:6] + LEAF[NP:NP + 8]
        docs += [[a, b, c] for a in small for b in small for c in small if not excluded_pair(a, b) and not excluded_pair(b, c)]
    return docs

def make_case(docs):
    def case(idx):
        mi = idx % len(MODES); d = docs[idx // len(MODES)]; mname, ext, labels = MODES[mi]
        if mname == "compat" and any(mmd_only(b) for b in d): return (None, [], dict(skipped=1))
        src = sbl(d).encode(); exp = (rbl(d, labels) + "\n").encode()
        got = mmd.convert(src, ext | mmd.EXT["SNIPPET"], 0)
        v = []
        if got != exp:
            kinds = "+".join(b[0] if b[0] != "h" else "h-" + b[3] for b in d)
            # recorded finding, narrowly: the ONLY deviation is that lines of a fenced block inside a block quote lost their 1-3 leading spaces
            if len(d) == 1 and d[0][0] == "bq" and len(d[0][1]) == 1 and d[0][1][0][0] == "fence":
                f = d[0][1][0]; stripped = "\n".join(re.sub(r"^ {1,3}(?! )", "", l) for l in f[1].split("\n"))
                if stripped != f[1] and got == (rbl([("bq", [("fence", stripped, f[2])])], labels) + "\n").encode(): kinds = "bq:fenced-code-line-loses-leading-spaces"
            v.append(("reference:%s:%s" % (kinds, mname), "HTML differs from the documented rendering for %r" % src, dict(src=src.decode("latin-1"), mode=mname, got=got.decode("utf-8", "replace"), expected=exp.decode("utf-8", "replace"))))
        return (pmap.h64(src + bytes([mi])), v, dict(judged=1))
    return case, len(docs) * len(MODES)

SMART = [(b'"double" and \'single\' quotes\n', b"<p>&#8220;double&#8221; and &#8216;single&#8217; quotes</p>\n"), (b"en -- dash and em --- dash ... it's\n", b"<p>en &#8211; dash and em &#8212; dash &#8230; it&#8217;s</p>\n"),
         (b"text[^1]\n\n[^1]: The note.\n", b'<p>text<a href="#fn:1" id="fnref:1" title="see footnote" class="footnote"><sup>1</sup></a></p>\n\n<div class="footnotes">\n<hr />\n<ol>\n\n<li id="fn:1">\n<p>The note. <a href="#fnref:1" title="return to body" class="reversefootnote">&#160;&#8617;&#xfe0e;</a></p>\n</li>\n\n</ol>\n</div>\n')]

def run_layer(rep, tier):
    docs = doc_list(tier)
    case, n = make_case(docs)
    res = pmap.pmap(n, case, deadline_s=core.deadline_s(tier) * 0.9)
    pmap.fold(rep, "reference-renderer", n, res, "%d abstract documents (leaf blocks with every inline construct, quotes, tight/loose/nested lists, pairs%s) x {MMD, compat}: byte equality with the documented HTML" % (len(docs), " and triples" if tier != "quick" else ""))
    bad = 0
    for src, exp in SMART:
        got = mmd.convert(src, mmd.EXT_DEFAULT | mmd.EXT["SNIPPET"], 0)
        if got != exp:
            bad += 1; rep.add_violation("reference:smart-or-footnote", "HTML differs from the documented rendering for %r" % src, dict(src=src.decode(), got=got.decode("utf-8", "replace"), expected=exp.decode()))
    rep.add_level("reference-smart-footnote", len(SMART), len(SMART), True, 0.0, len(SMART), "smart punctuation and footnote renderings from the guide")
    rep.add_sample(dict(layer=3, src=sbl(docs[40]), expected=rbl(docs[40])))
