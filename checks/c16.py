"""C16 valid UTF-8 in, valid UTF-8 out (E1, plain build, strict UTF-8 DFA oracle)."""
from vp.simple import DriverCheck
D = DriverCheck("C16", "c16", ["c16.c"], ["plain"],
    rule="all sequences over alphabets/utf8.txt (multi-byte characters whose encodings contain 0xA0/0xC2/0xC3 leads, 3- and 4-byte forms, interleaved with every syntax character) in 14 syntactic positions (ctx16_*.txt) x textual formats x option sets x languages; oracle: strict UTF-8 validity of the output; distinct = distinct output hashes",
    assumptions=["inputs are valid UTF-8 by construction (re-checked per case)", "ITMZ/EPUB/ODT are archives and are judged by C08/C09"])
run, replay, prepare = D.run, D.replay, D.prepare
META = dict(level="exploration", engine="E1",
    technique="bounded-exhaustive enumeration of UTF-8/syntax sequences in every syntactic position, strict UTF-8 DFA on every output",
    text="Every sequence up to the stated length over multi-byte characters that contain the bytes the lexer special-cases, mixed with every syntax character, placed in body, heading, list, quote, table, metadata, link text/URL/title, image alt, definition label, footnote and abbreviation positions, is converted to every textual format and the output is validated byte by byte.",
    note="small-scope hypothesis: splitting/case-mapping defects depend on the neighbouring one or two tokens; lengths <= 3 (4 in body) are covered")
