"""C11 metadata reported, extracted and updated faithfully (E1 over metadata blocks + E2 over update histories)."""
import itertools, re, html, subprocess, time, os
from vp import build, core, mmd, pmap

KEYS = [b"Title", b"my key", b"A.b_c-d", b"x1", b"Author", b"Title Short", b"x1x"]      # incl. keys that are prefixes of other keys
VALUES = [b"word", b"a: b", b"x & y <z>", b"trail  ", b"line1\n    line2", b"caf\xc3\xa9 \xe2\x80\xa0", b"v\n    k2: w", b"two  spaces", b"q\"uote'", b"see\nhttp://host/x?a=1", b"http://host/y", b"mail\nmailto:me@x.yz", b"\"To be\" or \"not\"", b"'q'"]      # the last two begin and end with the same quote character
BODIES = [b"", b"para text\n", b"# Heading\n", b"Not: metadata\n", b"*emph* [l](u)\n\nsecond\n"]
FENCES = ["none", "yaml"]
TERMS = ["blank", "eof_nl", "eof"]

def norm_key(k): return re.sub(rb"\s+", b"", k).lower()
def norm_val(v): return re.sub(rb"\s+", b" ", v).strip()

def build_doc(pairs, fence, term, body):
    lines = b"".join(k + b": " + v + b"\n" for k, v in pairs)
    block = (b"---\n" + lines + b"---\n") if fence == "yaml" else lines
    if term == "blank": return block + b"\n" + body, len(block), len(block) + 1, body
    if term == "eof_nl": return block, len(block), len(block), b""
    return block[:-1], len(block) - 1, len(block) - 1, b""

def all_blocks(maxkeys):
    out = []
    for n in range(1, maxkeys + 1):
        for ks in itertools.permutations(range(len(KEYS)), n):
            if n > 1 and ks[0] > ks[1]: continue          # unordered key sets once (order of the rest varies)
            for vs in itertools.product(range(len(VALUES)), repeat=n):
                if n == 3 and len(set(vs)) == 1 and vs[0] > 2: continue
                out.append((ks, vs))
    return out

def check_read(doc, pairs, lo, hi, body, fam, v, tag):
    """reading oracles on one document through one API family"""
    case = dict(src=doc.decode("latin-1"), family=fam)
    hm = mmd.meta(doc, 0, fam=fam)
    flag, end = hm.split(); end = int(end)
    if flag != b"1":
        v.append(("meta:has-metadata-false" + tag, "has_metadata false for %r" % doc, case)); return False
    if not (lo <= end <= hi):
        v.append(("meta:end-offset" + tag, "end=%d, block occupies [0,%d), body starts at %d in %r" % (end, lo, hi, doc), case))
    keys = (mmd.meta(doc, 1, fam=fam) or b"").split(b"\n")
    keys = [k for k in keys if k]
    exp = [norm_key(k) for k, _ in pairs]
    if keys != exp:
        v.append(("meta:keys" + tag, "keys %r expected %r in %r" % (keys, exp, doc), case)); return False
    ok = True
    for k, val in pairs:
        for spelling in (k, norm_key(k)):
            got = mmd.meta(doc, 2, spelling, fam=fam)
            if got is None or norm_val(got) != norm_val(val):
                v.append(("meta:value" + tag, "value for %r is %r, written %r, in %r" % (spelling, got, val, doc), dict(case, key=spelling.decode("latin-1")))); ok = False; break
    return ok

def read_case(blocks):
    combos = [(f, t, b) for f in FENCES for t in TERMS for b in range(len(BODIES)) if t == "blank" or b == 0]
    def case(idx):
        ci = idx % len(combos); bi = idx // len(combos)
        ks, vs = blocks[bi]; fence, term, b = combos[ci]
        pairs = [(KEYS[k], VALUES[x]) for k, x in zip(ks, vs)]
        doc, lo, hi, body = build_doc(pairs, fence, term, BODIES[b])
        v = []
        for fam in (0, 1, 2):
            check_read(doc, pairs, lo, hi, body, fam, v, "")
        k1, k2 = mmd.meta_engine_requery(doc)
        if k1 != [norm_key(k) for k, _ in pairs] or k2 != k1:
            v.append(("meta:engine-requery-keys", "one engine asked twice lists %r then %r for %r" % (k1, k2, doc), dict(src=doc.decode("latin-1"))))
        # complete document carries the same values (html -f)
        if not v:
            out = mmd.convert(doc, mmd.EXT_DEFAULT | mmd.EXT["COMPLETE"], 0)
            for k, val in pairs:
                nk = norm_key(k).decode()
                if nk == "title":
                    m = re.search(rb"<title>(.*?)</title>", out, re.S)
                else:
                    m = re.search(rb'<meta name="' + re.escape(nk.encode()) + rb'" content="(.*?)"/>', out, re.S)
                got = html.unescape(m.group(1).decode("utf-8", "replace")).encode() if m else None
                if got is None or norm_val(got) != norm_val(val):
                    v.append(("meta:complete-html-value", "html -f carries %r for key %s, written %r, in %r" % (got, nk, val, doc), dict(src=doc.decode("latin-1"), key=nk))); break
        return (pmap.h64(doc), v, dict(judged=1))
    return case, len(blocks) * len(combos)

# ---- update histories
UKEYS = [b"Title", b"new key", b"x1"]
UVALS = [b"W", b"a: b & c", b"caf\xc3\xa9 x"]
def apply_model(pairs, key, val):
    nk = norm_key(key); out = []; found = False
    for k, x in pairs:
        if norm_key(k) == nk: out.append((k, val)); found = True
        else: out.append((k, x))
    if not found: out.append((key, val))
    return out

def update_case(blocks, depth):
    combos = [(f, t, b) for f in FENCES for t in TERMS for b in (0, 1, 3) if t == "blank" or b == 0]
    ops = [(k, x) for k in range(len(UKEYS)) for x in range(len(UVALS))]
    hists = [h for d in range(1, depth + 1) for h in itertools.product(range(len(ops)), repeat=d)]
    def case(idx):
        hi_ = idx % len(hists); idx //= len(hists); ci = idx % len(combos); bi = idx // len(combos)
        ks, vs = blocks[bi]; fence, term, b = combos[ci]
        pairs = [(KEYS[k], VALUES[x]) for k, x in zip(ks, vs)]
        doc, lo, hi, body = build_doc(pairs, fence, term, BODIES[b])
        hist = [(UKEYS[ops[o][0]], UVALS[ops[o][1]]) for o in hists[hi_]]
        v = []
        for mode in ("string", "dstring", "engine"):
            cur = doc; model = list(pairs)
            if mode == "engine":
                cur, answers, ekeys = mmd.meta_engine_history(doc, hist)
                for n, (k, val) in enumerate(hist):
                    model = apply_model(model, k, val)
                    if norm_val(answers[n] or b"") != norm_val(val):
                        v.append(("meta:update:same-engine-readback", "after update %r on %r the same engine answers %r for that key" % (hist[:n + 1], doc, answers[n]),
                                  dict(src=doc.decode("latin-1"), updates=[(a.decode("latin-1"), b_.decode("latin-1")) for a, b_ in hist[:n + 1]]))); break
                if not v and sorted(ekeys) != sorted(norm_key(k) for k, _ in model):
                    v.append(("meta:update:same-engine-keys", "after updates %r on %r the same engine lists keys %r" % (hist, doc, ekeys), dict(src=doc.decode("latin-1"))))
                steps = [(cur, model, hist)]
            else:
                steps = []
                for n, (k, val) in enumerate(hist):
                    cur = mmd.meta(cur, 3, k, val, fam=0 if mode == "string" else 1)
                    model = apply_model(model, k, val)
                    steps.append((cur, list(model), hist[:n + 1]))
            for cur, model, sofar in steps:
                if cur is None:
                    v.append(("meta:update-returned-null:" + mode, "update returned NULL for %r" % doc, dict(src=doc.decode("latin-1")))); break
                case_d = dict(src=doc.decode("latin-1"), updates=[(a.decode("latin-1"), b_.decode("latin-1")) for a, b_ in sofar], mode=mode, result=cur.decode("latin-1"))
                bad = None
                for k, val in model:
                    got = mmd.meta(cur, 2, norm_key(k), fam=0)
                    if norm_val(got or b"") != norm_val(val) or (got is None and val != b""):
                        lastk = norm_key(sofar[-1][0])
                        kind = "updated-key" if norm_key(k) == lastk else "other-key"
                        bad = ("meta:update:%s:%s" % (kind, mode), "after updates %r on %r key %r reads %r, expected %r; result %r" % (sofar, doc, k, got, val, cur)); break
                if not bad:
                    keys = [x for x in (mmd.meta(cur, 1, fam=0) or b"").split(b"\n") if x]
                    if sorted(keys) != sorted(norm_key(k) for k, _ in model):
                        bad = ("meta:update:key-set:" + mode, "after updates %r on %r keys are %r, expected %r; result %r" % (sofar, doc, keys, [norm_key(k) for k, _ in model], cur))
                if not bad and body:
                    flag, end = mmd.meta(cur, 0, fam=0).split()
                    rest = cur[int(end):].lstrip(b"\n")
                    if rest != body:
                        bad = ("meta:update:body-changed:" + mode, "after updates %r on %r the body is %r, expected %r" % (sofar, doc, rest, body))
                if bad:
                    orig = {norm_key(k) for k, _ in pairs}
                    kinds = sorted({"add" if norm_key(k) not in orig else "replace" for k, _ in sofar})
                    if fence == "yaml" and "add" in kinds and "body-changed" in bad[0]:
                        sig = "meta:update:body-changed:key-added-to-yaml-fenced-block"      # one root cause: the new key lands after the closing fence
                    else:
                        sig = "%s:%s-block:%s" % (bad[0], "yaml" if fence == "yaml" else "plain", "+".join(kinds))
                    v.append((sig, bad[1], case_d)); break
        return (pmap.h64(doc + repr(hist).encode()), v, dict(judged=1))
    return case, len(blocks) * len(combos) * len(hists)

def cli_leg(rep, tier):
    t0 = time.time(); cli = build.build_cli()
    blocks = all_blocks(2)[::(9 if tier == "quick" else 2)]
    jobs = []
    for ks, vs in blocks:
        pairs = [(KEYS[k], VALUES[x]) for k, x in zip(ks, vs)]
        for term in TERMS:
            doc, lo, hi, body = build_doc(pairs, "none", term, BODIES[1])
            jobs.append((doc, pairs))
    from concurrent.futures import ThreadPoolExecutor
    def one(j):
        doc, pairs = j; out = []
        r = subprocess.run([cli, "-m"], input=doc, capture_output=True).stdout
        keys = [x for x in r.split(b"\n") if x]
        if keys != [norm_key(k) for k, _ in pairs]:
            out.append(("meta:cli-keys", "multimarkdown -m on %r printed %r" % (doc, r), dict(src=doc.decode("latin-1"))))
        for k, val in pairs:
            r = subprocess.run([cli, "-e", norm_key(k).decode()], input=doc, capture_output=True).stdout
            if norm_val(r) != norm_val(val):
                out.append(("meta:cli-extract", "multimarkdown -e %s on %r printed %r, written %r" % (norm_key(k).decode(), doc, r, val), dict(src=doc.decode("latin-1")))); break
        return out
    with ThreadPoolExecutor(16) as ex:
        for vs_ in ex.map(one, jobs):
            for sig, det, case in vs_: rep.add_violation(sig, det, case, replay=dict(kind="cli"))
    rep.add_level("cli-m-e", len(jobs), len(jobs), True, time.time() - t0, len(jobs), "real CLI -m and -e <key> on a sub-grid of blocks x 3 terminators")

# keys with an empty value (legal anywhere except as the very first line of an unfenced block, which the format defines as 'not metadata')
def empty_docs():
    out = []
    for keys in ([b"author", b"title"], [b"title", b"author"], [b"author", b"title", b"date"], [b"title", b"date", b"author"]):
        for empty in keys:
            for fence in ("none", "yaml"):
                if fence == "none" and keys[0] == empty: continue
                lines = b"".join(k + (b":\n" if k == empty else b": V-" + k + b"\n") for k in keys)
                for term in (b"\nbody\n", b""):
                    doc = (b"---\n" + lines + b"---\n" if fence == "yaml" else lines) + term
                    out.append((doc, keys, empty))
    return out
def empty_case(idx):
    doc, keys, empty = EMPTY_DOCS[idx]; v = []
    for fam in (0, 1, 2):
        case = dict(src=doc.decode("latin-1"), family=fam)
        hm = mmd.meta(doc, 0, fam=fam)
        if not hm or hm.split()[0] != b"1": v.append(("meta:has-metadata-false:empty-value", "has_metadata false for %r" % doc, case)); continue
        got = [k for k in (mmd.meta(doc, 1, fam=fam) or b"").split(b"\n") if k]
        if got != keys: v.append(("meta:keys:empty-value", "keys %r expected %r in %r" % (got, keys, doc), case)); continue
        for k in keys:
            val = mmd.meta(doc, 2, k, fam=fam)
            want = b"" if k == empty else b"V-" + k
            if norm_val(val or b"") != want: v.append(("meta:value:empty-value", "value for %r is %r, expected %r, in %r" % (k, val, want, doc), case)); break
    return (pmap.h64(doc), v, dict(judged=3))
EMPTY_DOCS = empty_docs()

def run(tier):
    rep = core.Report("C11", tier, "model_checking")
    rep.rule = ("metadata blocks: 1..n distinct keys from %d spellings x values from %d shapes (colon, & < >, trailing spaces, continuation lines, multi-byte, key-looking continuation, quotes) x fence {none,YAML} x "
                "terminator {blank line, EOF with newline, EOF without newline} x bodies; reference model = the generator's own (normalised key, value) list; reading oracles through all three API families + html -f; "
                "then breadth-first update histories (update existing / add new / set empty) through the string chain, the DString API and one reused engine; state = document text; "
                "every transition re-reads every key, the key set and the body from the resulting text" % (len(KEYS), len(VALUES)))
    rep.assumptions = ["values are compared after collapsing whitespace runs (the statement does not fix how continuation lines are joined)", "keys within one block are distinct"]
    mmd.so_path(); dl = core.deadline_s(tier)
    blocks = all_blocks(2 if tier == "quick" else 3)
    case, n = read_case(blocks)
    res = pmap.pmap(n, case, deadline_s=dl * 0.5)
    pmap.fold(rep, "read", n, res, "%d metadata blocks x fence x terminator x body: has_metadata/end, keys, values via 3 API families, html -f" % len(blocks))
    res = pmap.pmap(len(EMPTY_DOCS), empty_case, workers=4, deadline_s=dl * 0.1)
    pmap.fold(rep, "empty-values", len(EMPTY_DOCS), res, "blocks of 2-3 keys in which one key has an empty value (every position; fenced and unfenced; with and without body) x 3 API families")
    ublocks = all_blocks(1) + [b for b in all_blocks(2) if len(b[0]) == 2 and b[1][0] < 3 and b[1][1] < 3]
    depth = 2 if tier == "quick" else 3
    case, n = update_case(ublocks, depth)
    res = pmap.pmap(n, case, deadline_s=dl * 0.9)
    pmap.fold(rep, "update-histories-depth%d" % depth, n, res, "%d blocks x fence x terminator x body x all update histories of depth <= %d x {string chain, DString, reused engine}" % (len(ublocks), depth))
    rep.states = len(res["distinct"]); rep.transitions = res["done"] * 3; rep.traces = res["done"] * 3
    doc, lo, hi, body = build_doc([(KEYS[0], VALUES[2]), (KEYS[1], VALUES[4])], "none", "eof", b"")
    rep.add_sample(dict(src=doc.decode("latin-1"), expect=[(norm_key(KEYS[0]).decode(), norm_val(VALUES[2]).decode()), (norm_key(KEYS[1]).decode(), norm_val(VALUES[4]).decode())]))
    rep.add_sample(dict(src=doc.decode("latin-1"), updates=[("new key", "a: b & c"), ("Title", "")], modes=["string", "dstring", "engine"]))
    cli_leg(rep, tier)
    return rep.finish()

def replay(rec):
    c = rec["cases"][0]; src = c["src"].encode("latin-1")
    print("source:", src)
    for fam in (0, 1, 2): print("family", fam, mmd.meta(src, 0, fam=fam), mmd.meta(src, 1, fam=fam))
    if "updates" in c:
        cur = src
        for k, v in c["updates"]:
            cur = mmd.meta(cur, 3, k.encode("latin-1"), v.encode("latin-1")); print("after", k, v, "->", cur)
    return 1

def prepare():
    mmd.so_path(); build.build_cli()

META = dict(level="model_checking", engine="E2",
    technique="bounded-exhaustive enumeration of metadata blocks against a key/value list model, plus breadth-first exploration of update histories on the real API (string chain, DString, one reused engine) with the model replayed alongside",
    text="Every block shape up to the stated size is read back through all three API families and the complete-document output; every update history up to the stated depth is applied through each API and every key, the key set and the body are re-read from the result after every step and compared with the model.",
    note="trusted: the key normalisation rule (lower-case, whitespace removed) and whitespace-collapsing comparison of values")
