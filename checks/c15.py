"""C15 token tree soundness (E1, asan-nopool so that a stale pointer is a fault, not a silent read)."""
from vp.simple import DriverCheck
D = DriverCheck("C15", "c15", ["c15.c"], ["asan-nopool"],
    rule="every document over the line/inline/macro alphabets up to the level's length x extension sets is parsed with mmd_engine_parse_string; the tree is walked (visit budget) and checked exactly as the statement says: root is DOC_START spanning [0,len), spans inside the source, next/prev mutually consistent, siblings in non-decreasing start, mate symmetric; re-checked after each of 6 exports and after parse_substring on every line-aligned range; `tail` shortcuts and first->prev are tallied (n_aux2, n_aux1), not judged; distinct = distinct (token count, outputs) hashes",
    assumptions=["the statement does not mention the `tail` shortcut nor child-inside-parent containment; neither is part of the verdict"])
from vp import core
def _undecided(rep):
    """An export that does not return (the self-referential-note defect recorded under C01/C02) leaves no tree to judge:
    such cases are reported as undecided here, not as a C15 violation and not as a C15 finding."""
    for sig in list(rep.viol):
        v = rep.viol[sig]
        if (sig == "hang" or sig.startswith("asan:stack-overflow")) and v["cases"] and all(core.self_referential(c.get("src", "")) for c in v["cases"]):
            rep.assumptions.append("undecided (export does not return, see C01 finding self-referential-note): %d case(s), e.g. %r" % (v["count"], v["cases"][0].get("src")))
            del rep.viol[sig]
def run(tier): return D.run(tier, post=_undecided)
replay, prepare = D.replay, D.prepare
META = dict(level="exploration", engine="E1",
    technique="bounded-exhaustive enumeration of inputs; structural invariant evaluated on the real token tree after parse, after every export and after every sub-range parse, under ASan without the pool",
    text="All documents up to the stated length over one or two representatives per token/line kind are parsed and the exposed tree is checked against the statement's invariants at every observation point an API user has; enum-range relations the tables rely on are evaluated against the current headers.",
    note="small-scope hypothesis; ASan catches dangling links")
