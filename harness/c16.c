/* C16 valid UTF-8 in -> valid UTF-8 out.  Inputs are valid by construction; oracle: strict UTF-8 DFA over every output. */
#include "space.h"
static k_alpha *A, *P, *Q; static char docbuf[1 << 16];
static const short FM[8] = { FORMAT_HTML, FORMAT_LATEX, FORMAT_BEAMER, FORMAT_MEMOIR, FORMAT_FODT, FORMAT_OPML, FORMAT_MMD, FORMAT_EPUB /* the XHTML text a string conversion returns for EPUB */ };
static const unsigned long SM[4] = { EXT_DEFAULT, EXT_DEFAULT & ~EXT_SMART, EXT_COMPAT_SET, EXT_DEFAULT | EXT_COMPLETE };
static void conv(const char *doc, size_t n, int fmt, unsigned long ext, int lang) {
	size_t bad;
	if (!k_utf8_valid((const unsigned char *)doc, n, &bad)) { k_note("skipped", 1); return; }   /* generator error guard */
	POOL_INIT();
	char *out = NULL; srand(1);
	K_TRY(out = mmd_string_convert(doc, ext, fmt, lang));
	if (!k_exited && out) {
		size_t ol = strlen(out);
		if (!k_utf8_valid((const unsigned char *)out, ol, &bad)) {
			char sig[96]; snprintf(sig, sizeof sig, "invalid-utf8-out:%s", FORMAT_NAMES[fmt]);
			size_t from = bad > 24 ? bad - 24 : 0; char ctx[200]; size_t m = 0;
			for (size_t i = from; i < ol && i < bad + 8 && m < sizeof ctx - 6; i++) m += snprintf(ctx + m, sizeof ctx - m, (unsigned char)out[i] < 0x80 && out[i] >= 0x20 ? "%c" : "\\x%02x", (unsigned char)out[i]);
			k_violation(sig, "output byte %lu starts an invalid sequence: ...%s", (unsigned long)bad, ctx);
		}
		k_outcome(k_fnv(out, ol, K_FNV0 + fmt)); free(out);
	}
	POOL_DRAIN();
}
static space SP[6];
static void sp_run(int k, uint64_t idx) { space_pt p = space_decode(&SP[k], idx); size_t n = space_doc(&SP[k], &p, docbuf, sizeof docbuf); conv(docbuf, n, p.fmt, p.ext, p.lang); }
#define SPFN(k) static void run##k(uint64_t i) { sp_run(k, i); } static void desc##k(uint64_t i, FILE *o) { space_desc(&SP[k], i, o); }
SPFN(0) SPFN(1) SPFN(2) SPFN(3) SPFN(4) SPFN(5)
static const int C14[23] = { 0, 1, 2, 3, 4, 5, 6, 7, 8, 9, 10, 11, 12, 13, 14, 15, 16, 17, 18, 19, 20, 21, 22 };
static const int C1[1] = { 0 };
int main(int argc, char **argv) {
	A = k_alpha_load("utf8"); P = k_alpha_load("ctx16_pre"); Q = k_alpha_load("ctx16_post");
	SP[0] = (space){ .a = A, .minlen = 1, .maxlen = 2, .pre = P, .post = Q, .ctxs = C14, .nctx = 23, .fmts = FM, .nfmt = 8, .exts = SM, .next = 4, .nlang = 7 };
	SP[1] = (space){ .a = A, .minlen = 3, .maxlen = 3, .pre = P, .post = Q, .ctxs = C1, .nctx = 1, .fmts = FM, .nfmt = 8, .exts = SM, .next = 2 };
	SP[2] = (space){ .a = A, .minlen = 3, .maxlen = 3, .pre = P, .post = Q, .ctxs = C14, .nctx = 23, .fmts = FM, .nfmt = 8, .exts = SM, .next = 4 };
	SP[3] = (space){ .a = A, .minlen = 4, .maxlen = 4, .pre = P, .post = Q, .ctxs = C1, .nctx = 1, .fmts = FM, .nfmt = 6, .exts = SM, .next = 2 };
	/* sources that come in through the OPML reader: pure-ASCII character references and literal multi-byte characters in every attribute the reader decodes */
	static const unsigned long XM[2] = { EXT_DEFAULT | EXT_PARSE_OPML, EXT_COMPAT_SET | EXT_PARSE_OPML }; static const int C5[5] = { 0, 1, 2, 3, 4 };
	k_alpha *AX = k_alpha_load("utf8xml"), *PX = k_alpha_load("ctxopml_pre"), *QX = k_alpha_load("ctxopml_post");
	SP[4] = (space){ .a = AX, .minlen = 1, .maxlen = 2, .pre = PX, .post = QX, .ctxs = C5, .nctx = 5, .fmts = FM, .nfmt = 8, .exts = XM, .next = 2 };
	SP[5] = (space){ .a = AX, .minlen = 3, .maxlen = 3, .pre = PX, .post = QX, .ctxs = C5, .nctx = 5, .fmts = FM, .nfmt = 8, .exts = XM, .next = 1 };
	k_level L[] = {
		{ "q_opml_import_len2", space_count(&SP[4]), run4, desc4, "qt", "character references and multi-byte characters len<=2 in 5 positions of an OPML SOURCE (outline title, note, nested title, head title, metadata value) x 8 formats x {MMD,compat}" },
		{ "t_opml_import_len3", space_count(&SP[5]), run5, desc5, "t", "the same, len 3, MMD" },
		{ "q_len2_positions", space_count(&SP[0]), run0, desc0, "qt", "UTF-8/syntax sequences len<=2 in 23 positions x 8 textual formats x 4 option sets x 7 languages" },
		{ "q_len3_body", space_count(&SP[1]), run1, desc1, "qt", "sequences len 3 in body text x 8 formats x smart on/off" },
		{ "t_len3_positions", space_count(&SP[2]), run2, desc2, "t", "sequences len 3 in 23 positions x 8 formats x 4 option sets" },
		{ "t_len4_body", space_count(&SP[3]), run3, desc3, "t", "sequences len 4 in body text x 6 formats x smart on/off" },
	};
	return k_main(argc, argv, L, sizeof L / sizeof L[0]);
}
