/* C07 bounded stack and linear cost.
   stack levels: construct x shape x depth x writer; oracle: the conversion returns (supervisor: no signal); a case over the
                 time cap is recorded as a hang and reported by the Python side as *not covered*, never as a failure.
   cost levels (cov build only): executed basic blocks (trace-pc-guard) + bytes touched by libc string functions;
                 for k = 8,16,32,(64): cost(d^2k)/cost(d^k) <= 2.6 */
#include "space.h"
#include <sys/resource.h>

/* ---------------------------------------------------------------- cost counter */
static volatile uint64_t cost; static int counting;
void __sanitizer_cov_trace_pc_guard_init(uint32_t *start, uint32_t *stop) { for (uint32_t *p = start; p < stop; p++) *p = 1; }
void __sanitizer_cov_trace_pc_guard(uint32_t *g) { (void)g; if (counting) cost++; }
#ifdef VP_COST
size_t __real_strlen(const char *); size_t __wrap_strlen(const char *s) { size_t n = __real_strlen(s); if (counting) cost += n / 8; return n; }
void *__real_memmove(void *, const void *, size_t); void *__wrap_memmove(void *d, const void *s, size_t n) { if (counting) cost += n / 8; return __real_memmove(d, s, n); }
void *__real_memcpy(void *, const void *, size_t); void *__wrap_memcpy(void *d, const void *s, size_t n) { if (counting) cost += n / 8; return __real_memcpy(d, s, n); }
char *__real_strstr(const char *, const char *); char *__wrap_strstr(const char *h, const char *n) { char *r = __real_strstr(h, n); if (counting) cost += (r ? (size_t)(r - h) : __real_strlen(h)) / 8; return r; }
char *__real_strncat(char *, const char *, size_t); char *__wrap_strncat(char *d, const char *s, size_t n) { if (counting) cost += (__real_strlen(d) + n) / 8; return __real_strncat(d, s, n); }
char *__real_strcat(char *, const char *); char *__wrap_strcat(char *d, const char *s) { if (counting) cost += (__real_strlen(d) + __real_strlen(s)) / 8; return __real_strcat(d, s); }
int __real_strcmp(const char *, const char *); int __wrap_strcmp(const char *a, const char *b) { if (counting) { size_t i = 0; while (a[i] && a[i] == b[i]) i++; cost += i / 8; } return __real_strcmp(a, b); }
char *__real_strchr(const char *, int); char *__wrap_strchr(const char *s, int c) { char *r = __real_strchr(s, c); if (counting) cost += (r ? (size_t)(r - s) : __real_strlen(s)) / 8; return r; }
char *__real_strncpy(char *, const char *, size_t); char *__wrap_strncpy(char *d, const char *s, size_t n) { if (counting) cost += n / 8; return __real_strncpy(d, s, n); }
#endif

/* ---------------------------------------------------------------- stack grid */
typedef struct { const char *name, *op, *cl, *sep; int per_line; } construct;
static const construct CONS[] = {
	{ "bracket", "[", "]", "a ", 0 }, { "footnote-bracket", "[^", "]", "a ", 0 }, { "image-bracket", "![", "]", "a ", 0 }, { "variable-bracket", "[%", "]", "a ", 0 }, { "citation-bracket", "[#", "]", "a ", 0 }, { "glossary-bracket", "[?", "]", "a ", 0 }, { "abbreviation-bracket", "[>", "]", "a ", 0 }, { "paren", "(", ")", "a ", 0 }, { "angle", "<", ">", "a ", 0 },
	{ "star", "*", "*", "a ", 0 }, { "strong", "**", "**", "a ", 0 }, { "underscore", "_", "_", "a ", 0 }, { "backtick", "`", "`", "a ", 0 }, { "double-quote", "\"", "\"", "a ", 0 }, { "single-quote", "'", "'", "a ", 0 },
	{ "critic-add", "{++", "++}", "a ", 0 }, { "critic-del", "{--", "--}", "a ", 0 }, { "critic-hi", "{==", "==}", "a ", 0 }, { "critic-com", "{>>", "<<}", "a ", 0 }, { "critic-sub", "{~~", "~~}", "a~>b ", 0 },
	{ "math-dollar", "$", "$", "a ", 0 }, { "math-paren", "\\\\(", "\\\\)", "a ", 0 }, { "superscript", "^", "^", "a", 0 }, { "subscript", "~", "~", "a", 0 }, { "double-brace", "{{", "}}", "a", 0 },
	{ "bare-bracket-run", "[ ", "] ", "", 0 }, { "quote-one-line", "> ", "", "", 0 }, { "strong-emph-lines", "*a **a\n", "a** a*\n", "", 0 },
	{ "quote-staircase", NULL, NULL, NULL, 1 }, { "list-staircase", NULL, NULL, NULL, 2 }, { "definition-nest", NULL, NULL, NULL, 3 }, { "fence-in-list", NULL, NULL, NULL, 4 }, { "html-nest", "<div>", "</div>", "a", 0 },
	{ "image-alt-paren-nest", NULL, NULL, NULL, 5 }, { "image-alt-bracket-nest", NULL, NULL, NULL, 6 }, { "link-text-quote-nest", NULL, NULL, NULL, 7 }, { "link-title-paren-nest", NULL, NULL, NULL, 8 },
};
#define NCONS ((int)(sizeof CONS / sizeof CONS[0]))
static const long DEPTHS[] = { 10, 100, 1000, 10000, 100000, 1000000 };
static const short SW[] = { FORMAT_HTML, FORMAT_LATEX, FORMAT_FODT, FORMAT_OPML, FORMAT_ITMZ, -1 /* critic accept */, -2 /* critic reject */, -3 /* opml import */ };
#define NSW 8
static DString *gen_doc(int ci, int shape, long d) {
	const construct *c = &CONS[ci]; DString *s = d_string_new("");
	if (c->per_line == 1) { for (long i = 1; i <= d && s->currentStringLength < 4000000; i++) { for (long j = 0; j < (i < 200 ? i : 200); j++) d_string_append(s, "> "); d_string_append(s, "a\n"); if (i >= 200) { /* beyond 200 use a single long run */ for (long j = 0; j < d; j++) d_string_append(s, "> "); d_string_append(s, "b\n"); break; } } return s; }
	if (c->per_line == 2) { for (long i = 0; i < d && s->currentStringLength < 4000000; i++) { for (long j = 0; j < (i < 300 ? i : 300); j++) d_string_append_c(s, '\t'); d_string_append(s, "* a\n"); if (i >= 300) { for (long j = 0; j < d; j++) d_string_append_c(s, '\t'); d_string_append(s, "* b\n"); break; } } return s; }
	if (c->per_line == 3) { d_string_append(s, "term\n"); for (long i = 0; i < d && i < 600; i++) { for (long j = 0; j < i; j++) d_string_append(s, "    "); d_string_append(s, ": def\n\n"); } return s; }
	if (c->per_line == 4) { for (long i = 0; i < d && i < 2000; i++) { for (long j = 0; j < i; j++) d_string_append(s, "    "); d_string_append(s, "* a\n\n"); for (long j = 0; j <= i; j++) d_string_append(s, "    "); d_string_append(s, "```\n"); } return s; }
	if (c->per_line >= 5) {      /* nesting inside the text, alt or title of a link / image */
		const char *op = c->per_line == 5 || c->per_line == 8 ? "(a " : c->per_line == 6 ? "[a " : "\"a ", *cl = c->per_line == 5 || c->per_line == 8 ? " a)" : c->per_line == 6 ? " a]" : " a\"";
		d_string_append(s, c->per_line == 7 ? "x [" : c->per_line == 8 ? "x [t](u \"" : "x ![");
		for (long i = 0; i < d; i++) d_string_append(s, op); d_string_append(s, "b"); for (long i = 0; i < d; i++) d_string_append(s, cl);
		d_string_append(s, c->per_line == 7 ? "](http://u/)\n" : c->per_line == 8 ? "\")\n" : "](i.png)\n"); return s;
	}
	if (shape != 2) for (long i = 0; i < d; i++) { d_string_append(s, c->op); d_string_append(s, c->sep); }
	d_string_append(s, "b ");
	if (shape != 0 && c->cl[0]) for (long i = 0; i < d; i++) { d_string_append(s, c->sep); d_string_append(s, c->cl); }
	d_string_append(s, "\n");
	return s;
}
static int stack_maxdepth_idx = 5;
static void stack_case_decode(uint64_t i, int *ci, int *shape, int *di, int *wi) { *wi = i % NSW; i /= NSW; *shape = i % 3; i /= 3; *di = i % stack_maxdepth_idx; i /= stack_maxdepth_idx; *ci = (int)i; }
/* stack high-water mark: paint 4 MB below the current frame, run, then look how far the paint was overwritten */
#define PAINT (4u << 20)
__attribute__((noinline)) static void stack_paint(void) { volatile char buf[PAINT]; for (size_t i = 0; i < PAINT; i++) buf[i] = (char)0xA5; __asm__ volatile("" ::: "memory"); }
__attribute__((noinline)) static size_t stack_used(void) { volatile char buf[PAINT]; size_t i = 0; while (i < PAINT && buf[i] == (char)0xA5) i++; return PAINT - i; }
static void stack_one(int ci, int shape, long depth, int wi, int record) {
	DString *d = gen_doc(ci, shape, depth);
	POOL_INIT();
	char *out = NULL;
	if (SW[wi] >= 0) { srand(1); K_TRY(out = mmd_string_convert(d->str, EXT_DEFAULT, SW[wi], 0)); if (out && !k_exited) { if (record) k_outcome(k_fnv(out, strlen(out), ci * 131 + wi)); free(out); } }
	else if (SW[wi] == -1 || SW[wi] == -2) { DString *x = d_string_new(d->str); if (SW[wi] == -1) mmd_critic_markup_accept(x); else mmd_critic_markup_reject(x); if (record) k_outcome(k_fnv(x->str, x->currentStringLength, ci)); d_string_free(x, true); }
	else {      /* deep OPML outline import */
		DString *x = d_string_new("<?xml version=\"1.0\"?>\n<opml><body>\n"); long n = depth;
		for (long k = 0; k < n; k++) d_string_append(x, "<outline text=\"h\" _note=\"n\">\n");
		for (long k = 0; k < n; k++) d_string_append(x, "</outline>\n");
		d_string_append(x, "</body></opml>\n");
		DString *r = mmd_string_convert_opml_to_text(x->str); if (r) { if (record) k_outcome(r->currentStringLength); d_string_free(r, true); }
		d_string_free(x, true);
	}
	d_string_free(d, true);
	POOL_DRAIN();
}
static void run_stack(uint64_t i) {
	int ci, shape, di, wi; stack_case_decode(i, &ci, &shape, &di, &wi);
	if (CONS[ci].per_line && shape) return;
	if (DEPTHS[di] != 100000) { stack_one(ci, shape, DEPTHS[di], wi, 1); return; }
	/* at 1e5 also compare the stack high-water mark with the one at 1e4: every recursion is capped at ~1000 levels, so ten times
	   the nesting must not need (much) more stack; growth in proportion to the depth is unbounded recursion that a deeper input
	   (the statement allows 10^6 bytes of openers) turns into a crash */
	stack_paint(); stack_one(ci, shape, 10000, wi, 0); size_t u1 = stack_used();
	stack_paint(); stack_one(ci, shape, 100000, wi, 1); size_t u2 = stack_used();
	if (u2 > 2 * u1 + (256u << 10)) {
		char sig[128]; snprintf(sig, sizeof sig, "stack:grows-with-nesting-depth:%s:%s", CONS[ci].name, SW[wi] >= 0 ? FORMAT_NAMES[SW[wi]] : SW[wi] == -1 ? "critic-accept" : SW[wi] == -2 ? "critic-reject" : "opml-import");
		k_violation(sig, "stack high-water mark %zu bytes at depth 1e4, %zu bytes at depth 1e5 (%s)", u1, u2, shape == 0 ? "openers only" : shape == 1 ? "matched" : "closers only");
	} else k_note("judged", 1);
}
static void desc_stack(uint64_t i, FILE *o) {
	int ci, shape, di, wi; stack_case_decode(i, &ci, &shape, &di, &wi);
	fprintf(o, "\"construct\":\"%s\",\"shape\":\"%s\",\"depth\":%ld,\"writer\":\"%s\"", CONS[ci].name, shape == 0 ? "openers-only" : shape == 1 ? "matched" : "closers-only", DEPTHS[di],
	        SW[wi] >= 0 ? FORMAT_NAMES[SW[wi]] : SW[wi] == -1 ? "critic-accept" : SW[wi] == -2 ? "critic-reject" : "opml-import");
}

/* ---------------------------------------------------------------- cost grid */
static k_alpha *A_lines, *A_seeds; static int n_seeds; static k_frag *SEEDS; static const char **SEED_NAMES;
static const short CW[] = { FORMAT_HTML, FORMAT_LATEX, FORMAT_FODT, FORMAT_OPML };
static int KMAX = 32;
static unsigned long cost_ext = EXT_DEFAULT;
static uint64_t measure(const unsigned char *seed, size_t n, long k, int fmt) {
	DString *d = d_string_new("");
	/* "prefix \x01 unit \x01 suffix": the unit is repeated, prefix and suffix (definitions, a table head, a fence) appear once */
	const unsigned char *m1 = memchr(seed, 1, n), *m2 = m1 ? memchr(m1 + 1, 1, n - (m1 + 1 - seed)) : NULL;
	if (m1 && m2) {
		d_string_append_c_array(d, (const char *)seed, m1 - seed);
		for (long i = 0; i < k; i++) d_string_append_c_array(d, (const char *)m1 + 1, m2 - m1 - 1);
		d_string_append_c_array(d, (const char *)m2 + 1, n - (m2 + 1 - seed));
	} else for (long i = 0; i < k; i++) d_string_append_c_array(d, (const char *)seed, n);
	POOL_INIT(); srand(1);
	cost = 0; counting = 1;
	char *out = mmd_string_convert(d->str, cost_ext, fmt, 0);
	counting = 0;
	free(out); POOL_DRAIN(); d_string_free(d, true);
	return cost;
}
static int warmed;
static void run_cost(uint64_t i) {
	static const unsigned long CX[3] = { EXT_DEFAULT, EXT_DEFAULT | EXT_RANDOM_LABELS | EXT_RANDOM_FOOT | EXT_OBFUSCATE | EXT_COMPLETE, EXT_COMPAT_SET };
	int wi = i % 4; int xi = (int)((i / 4) % 3); int si = (int)(i / 12); cost_ext = EXT_DEFAULT;
	if (!warmed) { measure((const unsigned char *)"warm *up*\n\n", 11, 4, FORMAT_HTML); measure((const unsigned char *)"warm *up*\n\n", 11, 4, CW[wi]); warmed = 1; }
	cost_ext = CX[xi];
	k_frag *f = &SEEDS[si];
	/* sizes: the smallest power of two k0 with k0*|d| >= 32 kB, then 2*k0, 4*k0 (8*k0 thorough): large enough to be past
	   fixed-size look-back windows (kLargeStackThreshold = 1000 tokens); the verdict is on the LAST doubling (asymptotic behaviour),
	   all ratios are reported */
	long unit = (long)f->n; { const unsigned char *m1 = memchr(f->s, 1, f->n), *m2 = m1 ? memchr(m1 + 1, 1, f->n - (m1 + 1 - f->s)) : NULL; if (m1 && m2) unit = m2 - m1 - 1; }
	long k0 = 8; while (k0 * unit < 32768) k0 *= 2;
	uint64_t prev = measure(f->s, f->n, k0, CW[wi]); double last = 0, worst = 0; long lastk = 0; char all[128] = ""; size_t al = 0;
	int steps = KMAX > 32 ? 3 : 2;
	for (long k = k0 * 2, st = 0; st < steps; k *= 2, st++) {
		uint64_t c = measure(f->s, f->n, k, CW[wi]);
		double r = prev ? (double)c / (double)prev : 0;
		al += snprintf(all + al, sizeof all - al, "%s%.2f", st ? "," : "", r);
		if (r > worst) worst = r;
		last = r; lastk = k; prev = c;
	}
	k_outcome(k_fnv(&prev, 8, si * 7 + wi));
	if (last > 2.6) {
		char sig[160]; snprintf(sig, sizeof sig, "cost:superlinear:%s%s", SEED_NAMES[si], xi == 1 ? ":random-ids" : xi == 2 ? ":compat" : "");
		k_violation(sig, "cost(d^%ld)/cost(d^%ld) = %.2f > 2.6 for writer %s (ratios at successive doublings from k=%ld: %s)", lastk, lastk / 2, last, FORMAT_NAMES[CW[wi]], k0, all);
	} else k_note("judged", 1);
	if (worst > 2.6 && last <= 2.6) k_note("aux1", 1);      /* transient super-linear step that flattens out */
}
static void desc_cost(uint64_t i, FILE *o) { int wi = i % 4; int si = (int)(i / 12); fprintf(o, "\"options\":\"%s\",", (i / 4) % 3 == 0 ? "default" : (i / 4) % 3 == 1 ? "random labels+random footnotes+obfuscate+complete" : "compatibility"); fprintf(o, "\"seed_name\":\"%s\",", SEED_NAMES[si]); k_json_bytes(o, "seed", SEEDS[si].s, SEEDS[si].n > 200 ? 200 : SEEDS[si].n); fprintf(o, ",\"writer\":\"%s\"", FORMAT_NAMES[CW[wi]]); }

static void add_seed(const char *name, const unsigned char *s, size_t n) { SEEDS = realloc(SEEDS, sizeof(k_frag) * (n_seeds + 1)); SEED_NAMES = realloc(SEED_NAMES, sizeof(char *) * (n_seeds + 1)); SEEDS[n_seeds].s = (unsigned char *)s; SEEDS[n_seeds].n = n; SEED_NAMES[n_seeds] = strdup(name); n_seeds++; }

int main(int argc, char **argv) {
	struct rlimit rl = { 8 << 20, 8 << 20 }; setrlimit(RLIMIT_STACK, &rl);      /* the CLI's default 8 MB stack */
	int thorough = 0; for (int i = 1; i + 1 < argc; i++) if ((!strcmp(argv[i], "--tier") && argv[i + 1][0] == 't') || (!strcmp(argv[i], "--replay") && strstr(argv[i + 1], "t_"))) thorough = 1;
	A_lines = k_alpha_load("lines"); A_seeds = k_alpha_load("costseeds");
	char nm[64];
	for (int i = 0; i < 36 && i < A_lines->n; i++) { snprintf(nm, sizeof nm, "line-kind-%d", i); DString *d = d_string_new(""); d_string_append_c_array(d, (char *)A_lines->f[i].s, A_lines->f[i].n); d_string_append(d, "\n"); add_seed(nm, (unsigned char *)d->str, d->currentStringLength); }
	for (int i = 0; i < A_seeds->n; i++) { snprintf(nm, sizeof nm, "seed-%d", i); add_seed(nm, A_seeds->f[i].s, A_seeds->f[i].n); }
	/* corpus documents, listed by the Python side in VP_CORPUS (newline separated paths) */
	const char *cl = getenv("VP_CORPUS");
	if (cl) { char *copy = strdup(cl); for (char *p = strtok(copy, "\n"); p; p = strtok(NULL, "\n")) { FILE *f = fopen(p, "rb"); if (!f) continue; fseek(f, 0, SEEK_END); long n = ftell(f); rewind(f); unsigned char *b = malloc(n + 3); if (fread(b, 1, n, f) != (size_t)n) { fclose(f); continue; } fclose(f); b[n] = '\n'; b[n + 1] = '\n'; b[n + 2] = 0; if (memchr(b, 0, n) || strstr((char *)b, "{{TOC")) { free(b); continue; }   /* k copies of a TOC make the OUTPUT quadratic by definition */ const char *bn = strrchr(p, '/'); snprintf(nm, sizeof nm, "corpus:%.50s", bn ? bn + 1 : p); add_seed(nm, b, n + 2); } }
	if (thorough) { KMAX = 64; }
	k_level L[] = {
		{ "q_stack", (uint64_t)NCONS * 5 * 3 * NSW, run_stack, desc_stack, "q", "37 nesting constructs x {openers only, matched, closers only} x depth {10,100,1e3,1e4,1e5} x {html,latex,fodt,opml,itmz,critic accept,critic reject,opml import}" },
		{ "t_stack", (uint64_t)NCONS * 6 * 3 * NSW, run_stack, desc_stack, "t", "same grid with depths up to 1e5 and 1e6" },
#ifdef VP_COST
		{ "cost", (uint64_t)n_seeds * 12, run_cost, desc_cost, "qt", "seeds (every line kind, block/pathological seeds, prefix/unit/suffix seeds, corpus documents) x {html,latex,fodt,opml} x {default, random ids + obfuscation + complete, compatibility}: cost(d^2k)/cost(d^k) <= 2.6 for doubling k" },
#endif
	};
	/* the depth axis differs between the two stack levels */
	for (int i = 1; i + 1 < argc; i++) if (!strcmp(argv[i], "--replay") && !strncmp(argv[i + 1], "t_stack", 7)) stack_maxdepth_idx = 6;
	if (thorough) stack_maxdepth_idx = 6;
	if (stack_maxdepth_idx == 6) L[0].tiers = "";
	return k_main(argc, argv, L, sizeof L / sizeof L[0]);
}
