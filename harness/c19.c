/* C19 DString vs the obvious string model: breadth-first search over operation histories (E2).
   A state is the history that reaches it, replayed on a fresh DString; states are merged on
   (content, recorded length, capacity) - everything a DString holds - so merged states have equal futures.
   Reference model: a byte vector.  Built with ASan+UBSan: an out-of-bounds access kills the search, the
   parent reports the history that was being executed. */
#define _GNU_SOURCE
#include <stdio.h>
#include <stdlib.h>
#include <string.h>
#include <stdint.h>
#include <unistd.h>
#include <time.h>
#include <sys/mman.h>
#include <sys/wait.h>
#include <signal.h>
#include "d_string.h"

typedef struct { char *b; size_t n; } ref;
static void r_ins(ref *r, size_t pos, const char *s, size_t k) { if (pos > r->n) pos = r->n; r->b = realloc(r->b, r->n + k + 1); memmove(r->b + pos + k, r->b + pos, r->n - pos); memcpy(r->b + pos, s, k); r->n += k; r->b[r->n] = 0; }
static void r_erase(ref *r, size_t pos, size_t len) { if (pos > r->n || len == 0) return; if (len == (size_t) -1 || len >= r->n - pos) { r->n = pos; r->b[r->n] = 0; return; } memmove(r->b + pos, r->b + pos + len, r->n - pos - len); r->n -= len; r->b[r->n] = 0; }

enum { APPEND, APPEND_C, APPEND_ARR, APPEND_PF, PREPEND, INSERT, INSERT_C, INSERT_ARR, INSERT_PF, ERASE, COPYSUB, REPLACE, NOPS };
static const char *opn[] = { "append", "append_c", "append_c_array", "append_printf", "prepend", "insert", "insert_c", "insert_c_array", "insert_printf", "erase", "copy_substring", "replace_text_in_range" };
#define NP 9
static char *PAY[NP]; static size_t PL[NP];
typedef struct { unsigned char op, pi, posk, lenk; } opx;
static const char *kindname[] = { "0", "1", "len-1", "len", "len+1", "(size_t)-1" };
static size_t kindval(int k, size_t len) { switch (k) { case 0: return 0; case 1: return 1; case 2: return len ? len - 1 : 0; case 3: return len; case 4: return len + 1; default: return (size_t) -1; } }

/* 1 ok, 0 mismatch (why filled), 2 unjudged (statement leaves it open) */
static int apply(DString *d, ref *r, opx o, char *why) {
	size_t L = r->n; size_t pos = kindval(o.posk, L), ln = kindval(o.lenk, L); const char *s = PAY[o.pi]; size_t sl = PL[o.pi];
	switch (o.op) {
		case APPEND: d_string_append(d, s); r_ins(r, r->n, s, strlen(s)); break;
		case APPEND_C: d_string_append_c(d, s[0] ? s[0] : 'z'); r_ins(r, r->n, s[0] ? s : "z", 1); break;
		case APPEND_ARR: {
			if (ln == (size_t) -1) { d_string_append_c_array(d, s, (size_t) -1); r_ins(r, r->n, s, strlen(s)); }
			else { size_t k = ln > sl ? sl : ln; d_string_append_c_array(d, s, k); r_ins(r, r->n, s, k); }
			if (r->n != strlen(r->b)) return 3;     /* content now contains a NUL: later string-based operations are not defined on it */
		} break;
		case APPEND_PF: { d_string_append_printf(d, "%s|%d", s, 7); char *t = malloc(sl + 16); snprintf(t, sl + 16, "%s|%d", s, 7); r_ins(r, r->n, t, strlen(t)); free(t); } break;
		case PREPEND: d_string_prepend(d, s); r_ins(r, 0, s, strlen(s)); break;
		case INSERT: d_string_insert(d, pos, s); r_ins(r, pos, s, strlen(s)); break;
		case INSERT_C: d_string_insert_c(d, pos, 'q'); r_ins(r, pos, "q", 1); break;
		case INSERT_ARR: {
			size_t zl = strlen(s);
			if (ln == (size_t) -1) { d_string_insert_c_array(d, pos, s, (size_t) -1); r_ins(r, pos, s, zl); }
			else { size_t k = ln > zl ? zl : ln; d_string_insert_c_array(d, pos, s, k); r_ins(r, pos, s, k); }
		} break;
		case INSERT_PF: d_string_insert_printf(d, pos, "<%d>", 42); r_ins(r, pos, "<42>", 4); break;
		case ERASE: d_string_erase(d, pos, ln); r_erase(r, pos, ln); break;
		case COPYSUB: {
			char *c = d_string_copy_substring(d, pos, ln);
			size_t l2 = ln; int valid = 1;
			if (ln == (size_t) -1) { if (pos > L) return c ? (free(c), 2) : 2; l2 = L - pos; }   /* 'to the end' from beyond the end: not fixed by the header */
			if (pos > L || l2 > L - pos) valid = 0;
			if (!valid) { if (c) { sprintf(why, "non-NULL result for a range outside the string"); free(c); return 0; } }
			else if (!c || strlen(c) != l2 || memcmp(c, r->b + pos, l2)) { sprintf(why, "copied text differs from the model"); free(c); return 0; }
			free(c);
		} break;
		case REPLACE: {
			if (o.pi == 3) {	/* empty search string: the model does not define a result (nothing / everywhere); it must return, and the string stays a string (checked by same() after re-reading it) */
				d_string_replace_text_in_range(d, pos, ln, "", "XY");
				free(r->b); r->n = strlen(d->str); r->b = malloc(r->n + 1); memcpy(r->b, d->str, r->n + 1);
				break;
			}
			const char *orig = "ab"; const char *rp = o.pi % 3 == 0 ? "" : (o.pi % 3 == 1 ? "abab" : "X");
			if (pos > L) { long dl0 = d_string_replace_text_in_range(d, pos, ln, orig, rp); if (dl0) { sprintf(why, "replacement beyond the end"); return 0; } break; }
			size_t stop = ln == (size_t) -1 ? L : ((ln > L - pos) ? L : pos + ln);
			/* reference: non-overlapping occurrences, left to right, that lie entirely inside [pos,stop); one straddling stop is ambiguous */
			ref out = { malloc(1), 0 }; out.b[0] = 0; size_t i = 0; long dl = 0; int amb = 0;
			while (i < r->n) {
				if (i >= pos && i < stop && i + 2 <= r->n && !memcmp(r->b + i, orig, 2)) { if (i + 2 > stop) { amb = 1; break; } r_ins(&out, out.n, rp, strlen(rp)); i += 2; dl += (long) strlen(rp) - 2; }
				else { r_ins(&out, out.n, r->b + i, 1); i++; }
			}
			if (amb) { free(out.b); return 2; }
			long delta = d_string_replace_text_in_range(d, pos, ln, orig, rp);
			free(r->b); *r = out;
			if (delta != dl) { sprintf(why, "returned delta %ld, model %ld", delta, dl); return 0; }
		} break;
	}
	return 1;
}
static int same(DString *d, ref *r, char *why) {
	if (d->currentStringLength != r->n) { sprintf(why, "recorded length %lu, model %zu", (unsigned long) d->currentStringLength, r->n); return 0; }
	if (memcmp(d->str, r->b, r->n)) { sprintf(why, "content differs from the model"); return 0; }
	if (d->str[d->currentStringLength] != 0) { sprintf(why, "not NUL-terminated"); return 0; }
	if (d->currentStringBufferSize <= d->currentStringLength) { sprintf(why, "capacity %lu not larger than length %lu", (unsigned long) d->currentStringBufferSize, (unsigned long) d->currentStringLength); return 0; }
	return 1;
}
#define MAXDEPTH 5
typedef struct { opx h[MAXDEPTH]; unsigned char n, start; } hist;
static uint64_t fnv(const void *p, size_t n, uint64_t h) { const unsigned char *s = p; while (n--) { h ^= *s++; h *= 1099511628211ULL; } return h; }
#define NSTART 10
static const char *STARTS[NSTART] = { "", "foo", "ababab" };   /* + d_string_new() on 1022..4096-byte strings, filled in main */
static const char *START_NAMES[NSTART] = { "\"\"", "\"foo\"", "\"ababab\"", "new(1022 bytes)", "new(1023 bytes)", "new(1024 bytes)", "new(1025 bytes)", "new(2048 bytes)", "new(2049 bytes)", "new(4096 bytes)" };

static void print_hist(FILE *o, const hist *h, const opx *last) {
	fprintf(o, "\"start\":%s%s%s,\"history\":[", h->start < 3 ? "" : "\"", START_NAMES[h->start], h->start < 3 ? "" : "\"");
	for (int i = 0; i < h->n + (last ? 1 : 0); i++) { const opx *x = i < h->n ? &h->h[i] : last; fprintf(o, "%s\"%s(payload=%lu bytes,pos=%s,len=%s)\"", i ? "," : "", opn[x->op], (unsigned long) PL[x->pi], kindname[x->posk], kindname[x->lenk]); }
	fprintf(o, "]");
}
/* shared progress for crash attribution */
typedef struct { hist h; opx last; int active; volatile unsigned long ticks; } progress;
static progress *PR;

static uint64_t *hset; static size_t hcap;
static int hset_add(uint64_t k) { size_t i = (k * 0x9E3779B97F4A7C15ULL) >> 40; i &= hcap - 1; while (hset[i]) { if (hset[i] == k) return 0; i = (i + 1) & (hcap - 1); } hset[i] = k ? k : 1; return 1; }

static int usepos(int op) { return op == INSERT || op == INSERT_C || op == INSERT_ARR || op == INSERT_PF || op == ERASE || op == COPYSUB || op == REPLACE; }
static int uselen(int op) { return op == APPEND_ARR || op == INSERT_ARR || op == ERASE || op == COPYSUB || op == REPLACE; }
static int usepay(int op) { return op == APPEND || op == APPEND_C || op == APPEND_ARR || op == APPEND_PF || op == PREPEND || op == INSERT || op == INSERT_ARR || op == REPLACE; }

static int bfs(int maxd, double deadline_s, int only_start) {
	struct timespec t0; clock_gettime(CLOCK_MONOTONIC, &t0);
	hcap = 1 << 24; hset = calloc(hcap, 8);
	size_t qcap = 1 << 20, nq = 0, head = 0; hist *Q = malloc(sizeof(hist) * qcap);
	long trans = 0, bad = 0, unj = 0, states = 0; int reached = 0, complete = 1; long per_depth[MAXDEPTH + 1] = { 0 };
	{ Q[nq].n = 0; Q[nq].start = only_start; nq++; states++;
	  /* the start state itself must satisfy the invariants (d_string_new is an operation of the alphabet) */
	  DString *d0 = d_string_new(STARTS[only_start]); ref r0 = { strdup(STARTS[only_start]), strlen(STARTS[only_start]) }; char w0[160] = "";
	  PR->h = Q[0]; PR->h.n = 0; PR->active = 1;
	  if (!same(d0, &r0, w0)) { printf("{\"t\":\"viol\",\"sig\":\"dstring:new:%s\",\"detail\":\"d_string_new: %s\",", strstr(w0, "capacity") ? "capacity" : "result", w0); print_hist(stdout, &Q[0], NULL); printf("}\n"); }
	  d_string_free(d0, true); free(r0.b); }
	while (head < nq) {
		hist h = Q[head++];
		if (h.n >= maxd) continue;
		if ((head & 255) == 0) { struct timespec t; clock_gettime(CLOCK_MONOTONIC, &t); if ((t.tv_sec - t0.tv_sec) > deadline_s) { complete = 0; break; } }
		for (int op = 0; op < NOPS; op++) for (int pi = 0; pi < NP; pi++) for (int pk = 0; pk < 6; pk++) for (int lk = 0; lk < 6; lk++) {
			if (!usepos(op) && pk) continue; if (!uselen(op) && lk) continue; if (!usepay(op) && pi) continue;
			if (op == REPLACE && pi > 3) continue; if (op == APPEND_C && pi > 2) continue;
			if (pi == NP - 1 && op != APPEND_ARR) continue;            /* the NUL-containing payload is for the binary append path only */
			opx o = { op, pi, pk, lk };
			PR->h = h; PR->last = o; PR->active = 1; PR->ticks++;
			DString *d = d_string_new(STARTS[h.start]); ref r = { strdup(STARTS[h.start]), strlen(STARTS[h.start]) }; char why[160] = "";
			int ok = 1; for (int i = 0; i < h.n && ok == 1; i++) ok = apply(d, &r, h.h[i], why);
			if (ok != 1 || !same(d, &r, why)) { printf("{\"t\":\"internal\",\"what\":\"replayed prefix diverged: %s\"}\n", why); return 3; }
			int res = apply(d, &r, o, why); trans++;
			if (res == 2) unj++;
			else if (res == 3) { /* binary content: compare now, do not extend */
				if (d->currentStringLength != r.n || memcmp(d->str, r.b, r.n) || d->str[r.n] != 0 || d->currentStringBufferSize <= r.n) { bad++; printf("{\"t\":\"viol\",\"sig\":\"dstring:%s:binary-append\",\"detail\":\"binary append differs from the model\",", opn[op]); print_hist(stdout, &h, &o); printf("}\n"); }
			}
			else if (res == 0 || !same(d, &r, why)) {
				bad++;
				if (bad <= 50) { char sig[96]; snprintf(sig, sizeof sig, "dstring:%s:%s", opn[op], strstr(why, "length") ? "length" : strstr(why, "content") ? "content" : strstr(why, "NUL") ? "termination" : strstr(why, "capacity") ? "capacity" : strstr(why, "delta") ? "delta" : "result");
					printf("{\"t\":\"viol\",\"sig\":\"%s\",\"detail\":\"%s\",", sig, why); print_hist(stdout, &h, &o); printf("}\n"); }
			} else {
				uint64_t k = fnv(r.b, r.n, 1469598103934665603ULL); k = fnv(&d->currentStringBufferSize, 8, k); k = fnv(&r.n, 8, k);
				if (hset_add(k)) {
					states++; per_depth[h.n + 1]++;
					if (h.n + 1 > reached) reached = h.n + 1;
					if (h.n + 1 < maxd) { if (nq == qcap) { qcap *= 2; Q = realloc(Q, sizeof(hist) * qcap); } Q[nq] = h; Q[nq].h[h.n] = o; Q[nq].n = h.n + 1; nq++; }
				}
			}
			d_string_free(d, true); free(r.b);
		}
	}
	PR->active = 0;
	printf("{\"t\":\"bfs\",\"maxdepth\":%d,\"states\":%ld,\"transitions\":%ld,\"unjudged\":%ld,\"violations\":%ld,\"complete\":%s,\"reached_depth\":%d,\"states_by_depth\":[%ld,%ld,%ld,%ld,%ld]}\n",
	       maxd, states, trans, unj, bad, complete ? "true" : "false", reached, per_depth[1], per_depth[2], per_depth[3], per_depth[4], per_depth[5]);
	/* samples */
	for (int s = 0; s < 2 && nq > 3; s++) { size_t i = 1 + (nq - 2) * s / 2; printf("{\"t\":\"sample\","); print_hist(stdout, &Q[i], NULL); printf("}\n"); }
	return 0;
}
/* length sweep: every payload length 0..SWEEP_MAX through every inserting operation, on an empty string and on strings that end
   just below / at a capacity doubling; one operation per fresh string, compared with the model */
#define SWEEP_MAX 4200
static int sweep(void) {
	static const size_t pre[] = { 0, 1, 1022, 1023, 1024 }; long n = 0, bad = 0;
	char *pay = malloc(SWEEP_MAX + 2), *prefix = malloc(2048); char why[160];
	for (size_t L = 0; L <= SWEEP_MAX; L++) for (int pk = 0; pk < 5; pk++) for (int op = 0; op < 8; op++) {
		for (size_t j = 0; j < L; j++) pay[j] = "abxab"[j % 5]; pay[L] = 0;
		for (size_t j = 0; j < pre[pk]; j++) prefix[j] = "01234567"[j % 8]; prefix[pre[pk]] = 0;
		DString *d = d_string_new(prefix); ref r = { strdup(prefix), pre[pk] }; size_t mid = pre[pk] / 2;
		PR->ticks++; PR->active = 2; PR->h.n = 0; PR->h.start = 0; PR->last.op = op; PR->last.pi = pk; PR->last.posk = L & 255; PR->last.lenk = L >> 8;
		switch (op) {
			case 0: d_string_append(d, pay); r_ins(&r, r.n, pay, L); break;
			case 1: d_string_append_c_array(d, pay, L); r_ins(&r, r.n, pay, L); break;
			case 2: d_string_append_printf(d, "%s", pay); r_ins(&r, r.n, pay, L); break;
			case 3: d_string_append_printf(d, "%d%s", 7, pay); r_ins(&r, r.n, "7", 1); r_ins(&r, r.n, pay, L); break;
			case 4: d_string_prepend(d, pay); r_ins(&r, 0, pay, L); break;
			case 5: d_string_insert(d, mid, pay); r_ins(&r, mid, pay, L); break;
			case 6: d_string_insert_c_array(d, mid, pay, L); r_ins(&r, mid, pay, L); break;
			case 7: d_string_insert_printf(d, mid, "%s", pay); r_ins(&r, mid, pay, L); break;
		}
		n++;
		if (!same(d, &r, why)) { if (bad++ < 20) { static const char *sn[] = { "append", "append_c_array", "append_printf", "append_printf", "prepend", "insert", "insert_c_array", "insert_printf" };
			printf("{\"t\":\"viol\",\"sig\":\"dstring:%s:%s\",\"detail\":\"length sweep: %s\",\"start\":\"new(%lu bytes)\",\"history\":[\"%s(payload=%lu bytes, sweep op %d)\"]}\n", sn[op],
				strstr(why, "length") ? "length" : strstr(why, "content") ? "content" : strstr(why, "NUL") ? "termination" : strstr(why, "capacity") ? "capacity" : "result", why, (unsigned long) pre[pk], sn[op], (unsigned long) L, op); } }
		d_string_free(d, true); free(r.b);
	}
	PR->active = 0;
	printf("{\"t\":\"sweep\",\"cases\":%ld,\"violations\":%ld,\"max_payload\":%d}\n", n, bad, SWEEP_MAX);
	return 0;
}
/* wait for a child, killing it when it makes no progress (one transition that never returns) for HANG_S seconds */
#define HANG_S 20
static int wait_watch(pid_t pid, progress *q, int *hung) {
	int st; unsigned long last = q->ticks; double idle = 0; *hung = 0;
	for (;;) {
		pid_t r = waitpid(pid, &st, WNOHANG);
		if (r == pid) return st;
		usleep(100000);
		if (q->ticks != last) { last = q->ticks; idle = 0; } else idle += 0.1;
		if (idle > HANG_S && q->active) { kill(pid, SIGKILL); waitpid(pid, &st, 0); *hung = 1; return st; }
	}
}
const char *__asan_default_options(void) { return "detect_leaks=0:allocator_may_return_null=1"; }
const char *__ubsan_default_options(void) { return "print_stacktrace=1:halt_on_error=1"; }

int main(int argc, char **argv) {
	int maxd = argc > 1 ? atoi(argv[1]) : 2; double deadline = argc > 2 ? atof(argv[2]) : 600;
	if (maxd > MAXDEPTH) maxd = MAXDEPTH;
	size_t lens[NP] = { 0, 1, 3, 1022, 1023, 1024, 1025, 2049, 3 };
	for (int i = 0; i < NP; i++) { PAY[i] = malloc(lens[i] + 1); for (size_t j = 0; j < lens[i]; j++) PAY[i][j] = "abxab"[j % 5]; PAY[i][lens[i]] = 0; PL[i] = lens[i]; }
	PAY[NP - 1][1] = 0;     /* "a\0x" with explicit length 3 */
	static char *longs[NSTART]; size_t ll[NSTART] = { 0, 0, 0, 1022, 1023, 1024, 1025, 2048, 2049, 4096 };
	for (int k = 3; k < NSTART; k++) { longs[k] = malloc(ll[k] + 1); for (size_t q = 0; q < ll[k]; q++) longs[k][q] = "abxab"[q % 5]; longs[k][ll[k]] = 0; STARTS[k] = longs[k]; }
	progress *PRS = mmap(NULL, sizeof(progress) * (NSTART + 1), PROT_READ | PROT_WRITE, MAP_SHARED | MAP_ANONYMOUS, -1, 0);
	pid_t pids[NSTART]; char outf[NSTART][64];
	fflush(stdout);
	for (int k = 0; k < NSTART; k++) {
		snprintf(outf[k], sizeof outf[k], "/dev/shm/vp-c19-%d-%d.out", (int)getpid(), k);
		pids[k] = fork();
		if (pids[k] == 0) { PR = &PRS[k]; if (!freopen(outf[k], "w", stdout)) _exit(3); int rc = bfs(maxd, deadline, k); fflush(stdout); _exit(rc); }
	}
	int worst = 0;
	{ pid_t sp = fork(); if (sp == 0) { PR = &PRS[NSTART]; int rc = sweep(); fflush(stdout); _exit(rc); }
	  int hung; int st = wait_watch(sp, &PRS[NSTART], &hung);
	  if (!(WIFEXITED(st) && WEXITSTATUS(st) == 0)) { progress *q = &PRS[NSTART]; printf("{\"t\":\"crash\",\"how\":\"%s %d\",", hung ? "hang after" : WIFSIGNALED(st) ? "signal" : "exit", hung ? HANG_S : WIFSIGNALED(st) ? WTERMSIG(st) : WEXITSTATUS(st)); printf("\"start\":\"sweep prefix kind %d\",\"history\":[\"sweep op %d payload=%d bytes\"],\"op\":\"sweep-%d\"}\n", q->last.pi, q->last.op, q->last.posk + 256 * q->last.lenk, q->last.op); } }
	for (int k = 0; k < NSTART; k++) {
		int hung; int st = wait_watch(pids[k], &PRS[k], &hung);
		FILE *f = fopen(outf[k], "r"); char buf[8192]; size_t n; if (f) { while ((n = fread(buf, 1, sizeof buf, f)) > 0) fwrite(buf, 1, n, stdout); fclose(f); unlink(outf[k]); }
		if (WIFEXITED(st) && (WEXITSTATUS(st) == 0 || WEXITSTATUS(st) == 3)) { if (WEXITSTATUS(st) > worst) worst = WEXITSTATUS(st); continue; }
		printf("{\"t\":\"crash\",\"how\":\"%s %d\",", hung ? "hang after" : WIFSIGNALED(st) ? "signal" : "exit", hung ? HANG_S : WIFSIGNALED(st) ? WTERMSIG(st) : WEXITSTATUS(st));
		print_hist(stdout, &PRS[k].h, PRS[k].h.n || PRS[k].last.op ? &PRS[k].last : NULL); printf(",\"op\":\"%s\"}\n", opn[PRS[k].last.op]);
	}
	return worst;
}
