/* C18 token pool protocol: executes well-bracketed histories of pool/convert/hold operations on the real pool.
   token.c is included so that the pool's statics are visible (the repo's token.o is left out of the link).
   stdin: one history per line (letters); stdout: "<history> <result>" where result is
   OK <canonical state key>   |   VIOL <signature> <detail>   |   CRASH <status>
   Each history runs in its own forked child (fresh process-global state, ASan). */
#define _GNU_SOURCE
#ifndef ASSET_DIR
#define ASSET_DIR "/verif/fixtures/assets"
#endif
#include "token.c"
#include <string.h>
#include <stdint.h>
#include <unistd.h>
#include <sys/wait.h>
#include "libMultiMarkdown.h"
#include "d_string.h"
#include "object_pool.h"
#include "mmd.h"

/* ops: i init, e convert a document with images and a style sheet to EPUB (assets are stored), s convert small, k convert a kitchen sink (headings, definitions, table, notes), b convert big (two slabs), f fill the current slab exactly, h parse-and-hold a tree,
        c inspect (checksum) the held tree, m metadata queries on the held (already parsed) engine, d drain, x free */
static char *big, *bigmeta; static char *ref_small, *ref_big, *ref_sink;
/* a document that exercises the token-releasing paths of a conversion (automatic heading ids, definitions that are extracted, table assembly, notes) */
static const char *SINK = "Title: T\n\n# Head *one*\n\ntext[^f] [l][] [#c] \"q\" <http://a.b/>\n\nSetext\n------\n\n| a | b |\n|---|---|\n| c | d |\n[Cap]\n\nterm\n: def\n\n[^f]: note\n[l]: http://x.y/ \"t\"\n[#c]: Cite\n";
static uint64_t walk(token *t) { uint64_t h = 1469598103934665603ULL; while (t) { h ^= t->type + t->start * 31 + t->len * 131; h *= 1099511628211ULL; if (t->child) h ^= walk(t->child); t = t->next; } return h; }

static int run(const char *h, char *out, size_t cap) {
	int count = 0, exists = 0; mmd_engine *held = NULL; uint64_t heldsum = 0; int heldid = 0;
	for (int i = 0; h[i]; i++) {
		switch (h[i]) {
			case 'i': token_pool_init(); count++; exists = 1; break;
			case 's': { char *r = mmd_string_convert("a *b* c\n", 0x2218, 0, 0); if (!r || strcmp(r, ref_small)) { snprintf(out, cap, "VIOL pool:output-differs small conversion at step %d differs from fresh single use", i); return 1; } free(r); } break;
			case 'b': { char *r = mmd_string_convert(big, 0x2218, 0, 0); if (!r || strcmp(r, ref_big)) { snprintf(out, cap, "VIOL pool:output-differs two-slab conversion at step %d differs from fresh single use", i); return 1; } free(r); } break;
			case 'k': { char *r = mmd_string_convert(SINK, 0x2218, 0, 0); if (!r || strcmp(r, ref_sink)) { snprintf(out, cap, "VIOL pool:output-differs kitchen-sink conversion at step %d differs from fresh single use", i); free(r); return 1; } free(r); } break;
			case 'e': { DString *r = mmd_string_convert_to_data("Title: T\nCSS: tiny.css\n\n# H\n\ntext ![a](i.png) and ![b](t3.png \"t\")\n", 0x2218, FORMAT_EPUB, 0, ASSET_DIR); if (!r || r->currentStringLength < 100 || memcmp(r->str, "PK", 2)) { snprintf(out, cap, "VIOL pool:output-differs packaged (EPUB with stored assets) conversion at step %d returned no archive", i); return 1; } d_string_free(r, true); } break;
			case 'f': { while (token_pool->next != token_pool->last) token_new(0, 0, 0); } break;
			case 'h': if (!held) { held = mmd_engine_create_with_string(bigmeta, 0x2218); mmd_engine_parse_string(held); heldsum = walk(mmd_engine_root(held)); heldid = i + 1; } break;
			case 'm': if (held) { size_t end = 0; bool has = mmd_engine_has_metadata(held, &end); char *ks = mmd_engine_metadata_keys(held); if (!has || !ks || strcmp(ks, "title\n")) { snprintf(out, cap, "VIOL pool:metadata-query-result metadata query on the held engine returned has=%d keys=%s at step %d", (int)has, ks ? ks : "NULL", i); free(ks); return 1; } free(ks); } break;
			case 'c': if (held) { if (walk(mmd_engine_root(held)) != heldsum) { snprintf(out, cap, "VIOL pool:held-tree-changed tree held since step %d changed before the outermost drain (seen at step %d)", heldid - 1, i); return 1; } } break;
			case 'd':
				if (held && count > 1) { if (walk(mmd_engine_root(held)) != heldsum) { snprintf(out, cap, "VIOL pool:held-tree-changed tree changed before an inner drain at step %d", i); return 1; } }
				token_pool_drain(); count--;
				if (count > 0 && held) { if (walk(mmd_engine_root(held)) != heldsum) { snprintf(out, cap, "VIOL pool:inner-drain-released inner drain at step %d invalidated a held tree", i); return 1; } }
				if (count == 0) {
					if (held) { held->root = NULL; mmd_engine_free(held, true); held = NULL; }
					if (token_pool->allocated->size != 0) { snprintf(out, cap, "VIOL pool:slabs-not-released %d slabs remain after the outermost drain (step %d)", (int)token_pool->allocated->size, i); return 1; }
				}
				break;
			case 'x': token_pool_free(); if (token_pool != NULL) { snprintf(out, cap, "VIOL pool:not-freed pool pointer not cleared by free at step %d", i); return 1; } exists = 0; break;
			default: snprintf(out, cap, "VIOL harness:bad-op %c", h[i]); return 1;
		}
		if (token_pool_count != count) { snprintf(out, cap, "VIOL pool:count use count %d, model %d after step %d", token_pool_count, count, i); return 1; }
		if ((token_pool != NULL) != exists) { snprintf(out, cap, "VIOL pool:existence pool %s, model says %s after step %d", token_pool ? "exists" : "is NULL", exists ? "exists" : "freed", i); return 1; }
	}
	long off = token_pool && token_pool->next ? (long)((char *)token_pool->last - (char *)token_pool->next) : -1;
	snprintf(out, cap, "OK count=%d,exists=%d,slabs=%d,room=%ld,held=%d", count, exists, token_pool ? (int)token_pool->allocated->size : -1, off, held ? 1 : 0);
	return 0;
}
const char *__asan_default_options(void) { return "detect_leaks=0"; }
const char *__ubsan_default_options(void) { return "print_stacktrace=1:halt_on_error=1"; }
int main(void) {
	big = malloc(6 * 1500 + 2); big[0] = 0; for (int i = 0; i < 1500; i++) strcat(big, "*a "); strcat(big, "\n");
	bigmeta = malloc(strlen(big) + 32); strcpy(bigmeta, "Title: T\n\n"); strcat(bigmeta, big);
	token_pool_init(); ref_small = mmd_string_convert("a *b* c\n", 0x2218, 0, 0); ref_big = mmd_string_convert(big, 0x2218, 0, 0); ref_sink = mmd_string_convert(SINK, 0x2218, 0, 0); token_pool_drain(); token_pool_free();
	char line[256];
	while (fgets(line, sizeof line, stdin)) {
		line[strcspn(line, "\n")] = 0; if (!line[0]) continue;
		int fd[2]; if (pipe(fd)) return 3; fflush(stdout);
		pid_t p = fork();
		if (!p) { close(fd[0]); alarm(120); char out[400] = ""; run(line, out, sizeof out); if (write(fd[1], out, strlen(out)) < 0) _exit(3); _exit(0); }
		close(fd[1]); char res[512]; ssize_t n = 0, k; while ((k = read(fd[0], res + n, sizeof res - 1 - n)) > 0) n += k; res[n] = 0; close(fd[0]);
		int st; waitpid(p, &st, 0);
		if (!WIFEXITED(st) || WEXITSTATUS(st) != 0 || n == 0) printf("%s CRASH %s%d\n", line, WIFSIGNALED(st) ? "signal" : "exit", WIFSIGNALED(st) ? WTERMSIG(st) : WEXITSTATUS(st));
		else printf("%s %s\n", line, res);
	}
	return 0;
}
