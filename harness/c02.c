/* C02 layer C: realisable documents through the public API, 7 writers x {MMD, compatibility}.
   Oracle per case: the call returns (no exit(), supervisor: no signal/hang); nothing on stderr (parser.c is
   built without NDEBUG so a syntax error reports; writers report unknown tokens); output non-empty for
   non-blank input; the three fallback-only pseudo terminals are never fed to Parse(). */
#include "space.h"
#include "parser.h"

static k_alpha *A_inline, *A_lines, *A_linecore, *A_macro, *A_pre, *A_post;
static char docbuf[1 << 17];

static int pseudo_fed;
void __real_Parse(void *p, int major, token *minor, mmd_engine *e);
void __wrap_Parse(void *p, int major, token *minor, mmd_engine *e) {
	if (major == LINE_CONTINUATION || major == LINE_FALLBACK || major == LINE_BACKTICK) pseudo_fed = major;
	__real_Parse(p, major, minor, e);
}

static void conv_case(const char *doc, size_t n, int fmt, unsigned long ext) {
	POOL_INIT();
	char *out = NULL; pseudo_fed = 0;
	srand(1);
	K_TRY(out = mmd_string_convert(doc, ext, fmt, 0));
	if (k_exited) { k_violation(fmt == FORMAT_HTML ? "exit-called:html" : "exit-called", "conversion called exit(%d) [%s]", (int)k_exit_status, FORMAT_NAMES[fmt]); POOL_DRAIN(); return; }
	size_t el = k_stderr_len();
	if (el) {
		char eb[512]; k_stderr_read(eb, sizeof eb);
		char sig[160]; const char *kind = strstr(eb, "syntax error") ? "parser-syntax-error" : strstr(eb, "failed to successfully parse") ? "parse-failed" : strstr(eb, "Unknown token") ? "unknown-token" : strstr(eb, "stack overflow") ? "parser-stack-overflow" : "stderr-output";
		int tt = -1; const char *u = strstr(eb, "Unknown token type: "); if (u) tt = atoi(u + 20);
		if (tt >= 0) snprintf(sig, sizeof sig, "%s:%s:type%d", kind, FORMAT_NAMES[fmt], tt); else snprintf(sig, sizeof sig, "%s:%s", kind, strcmp(kind, "stderr-output") ? "parser" : FORMAT_NAMES[fmt]);
		k_violation(sig, "stderr: %s", eb);
	}
	if (pseudo_fed) k_violation("pseudo-terminal-fed", "line type %d reached Parse()", pseudo_fed);
	int blank = 1; for (size_t i = 0; i < n; i++) if (doc[i] != ' ' && doc[i] != '\n' && doc[i] != '\t' && doc[i] != '\r') { blank = 0; break; }
	if (!out) k_violation("null-result", "mmd_string_convert returned NULL [%s]", FORMAT_NAMES[fmt]);
	else {
		if (!blank && out[0] == 0 && !(ext & EXT_CRITIC_ACCEPT)) {
			/* a document consisting only of definitions / metadata / markup legitimately renders to nothing:
			   judged only when the source contains an alphanumeric outside such lines -> handled by the generator:
			   count, do not fail */
			k_note("aux1", 1);
		}
		k_outcome(k_fnv(out, strlen(out), K_FNV0 + fmt));
		free(out);
	}
	POOL_DRAIN();
}

static const unsigned long MODES[2] = { EXT_DEFAULT, EXT_COMPAT_SET };
/* deep nesting below the built-in limits (1000 levels): the innermost text must still be rendered, nothing on stderr */
static const int DN_DEPTH[5] = { 20, 60, 150, 300, 400 };     /* a list level costs two to three tree levels: 400 stays below the 1000-level export limit */
static DString *dn_doc(int kind, int depth) {
	DString *s = d_string_new("");
	if (kind == 0) { for (int i = 0; i < depth; i++) { for (int j = 0; j < i; j++) d_string_append_c(s, '\t'); d_string_append(s, "* a\n"); } for (int j = 0; j < depth; j++) d_string_append_c(s, '\t'); d_string_append(s, "* qinnermost\n"); }
	else if (kind == 1) { for (int i = 0; i < depth; i++) { for (int j = 0; j < i; j++) d_string_append_c(s, '\t'); d_string_append(s, "1. a\n\n"); } for (int j = 0; j < depth; j++) d_string_append_c(s, '\t'); d_string_append(s, "1. qinnermost\n"); }
	else if (kind == 2) { for (int j = 0; j < depth; j++) d_string_append(s, "> "); d_string_append(s, "qinnermost\n"); }
	else if (kind == 3) { for (int i = 0; i < depth; i++) { for (int j = 0; j < i; j++) d_string_append(s, "> "); d_string_append(s, "> a\n"); for (int j = 0; j <= i; j++) d_string_append(s, "> "); d_string_append(s, "\n"); } for (int j = 0; j <= depth; j++) d_string_append(s, "> "); d_string_append(s, "qinnermost\n"); }
	else { d_string_append(s, "x[^f]\n\n[^f]: a\n\n"); for (int i = 1; i <= depth; i++) { for (int j = 0; j < i; j++) d_string_append_c(s, '\t'); d_string_append(s, i == depth ? "* qinnermost\n" : "* a\n"); } }
	return s;
}
static void run_dn(uint64_t i) {
	int mi = i % 2; i /= 2; int fi = i % 7; i /= 7; int di = i % 5; int kind = (int)(i / 5);
	DString *d = dn_doc(kind, DN_DEPTH[di]);
	POOL_INIT(); char *out = NULL; pseudo_fed = 0; srand(1);
	K_TRY(out = mmd_string_convert(d->str, MODES[mi], TEXT_FORMATS[fi], 0));
	if (k_exited) k_violation("exit-called:deep-nesting", "conversion of %d nested levels called exit(%d) [%s]", DN_DEPTH[di], (int)k_exit_status, FORMAT_NAMES[TEXT_FORMATS[fi]]);
	else {
		if (k_stderr_len()) { char eb[300]; k_stderr_read(eb, sizeof eb); k_violation("stderr-output:deep-nesting", "%d nested levels [%s]: %s", DN_DEPTH[di], FORMAT_NAMES[TEXT_FORMATS[fi]], eb); }
		if (!out || !strstr(out, "qinnermost")) k_violation("text-lost:deep-nesting", "the innermost text of %d nested levels (kind %d) is missing from the %s output", DN_DEPTH[di], kind, FORMAT_NAMES[TEXT_FORMATS[fi]]);
		if (out) { k_outcome(k_fnv(out, strlen(out), K_FNV0 + fi)); free(out); }
	}
	d_string_free(d, true); POOL_DRAIN();
}
static void desc_dn(uint64_t i, FILE *o) { int mi = i % 2; i /= 2; int fi = i % 7; i /= 7; int di = i % 5; int kind = (int)(i / 5); static const char *KN[] = { "bullet-staircase", "loose-enumerated-staircase", "quote-one-line", "quote-staircase", "list-in-footnote" };
	fprintf(o, "\"construct\":\"%s\",\"depth\":%d,\"format\":\"%s\",\"mode\":\"%s\"", KN[kind], DN_DEPTH[di], FORMAT_NAMES[TEXT_FORMATS[fi]], mi ? "compat" : "mmd"); }
/* wide tables and long lists: every cell / item word must reach the output (fixed-size bookkeeping such as kMaxTableColumns must not drop text) */
static const int WT_N[6] = { 10, 47, 48, 49, 60, 130 };
static void run_wt(uint64_t i) {
	int mi = i % 2; i /= 2; int fi = i % 7; i /= 7; int ni = i % 6; int kind = (int)(i / 6); int n = WT_N[ni];
	DString *d = d_string_new(""); char w[32];
	if (kind == 0) { for (int r = 0; r < 3; r++) { for (int c = 0; c < n; c++) { if (r == 1) d_string_append(d, "|---"); else { snprintf(w, sizeof w, "| q%c%03d ", r ? 'b' : 'h', c); d_string_append(d, w); } } d_string_append(d, "|\n"); } }
	else if (kind == 1) { for (int c = 0; c < n; c++) { snprintf(w, sizeof w, "* qb%03d item\n", c); d_string_append(d, w); } }
	else { d_string_append(d, "text"); for (int c = 0; c < n; c++) { snprintf(w, sizeof w, "[^n%d]", c); d_string_append(d, w); } d_string_append(d, "\n\n"); for (int c = 0; c < n; c++) { snprintf(w, sizeof w, "[^n%d]: qb%03d note\n\n", c, c); d_string_append(d, w); } }
	POOL_INIT(); char *out = NULL; srand(1);
	K_TRY(out = mmd_string_convert(d->str, MODES[mi] | (kind == 2 ? 0 : 0), TEXT_FORMATS[fi], 0));
	if (k_exited) k_violation("exit-called:wide", "conversion called exit(%d) [%s]", (int)k_exit_status, FORMAT_NAMES[TEXT_FORMATS[fi]]);
	else if (out) {
		if (k_stderr_len()) { char eb[300]; k_stderr_read(eb, sizeof eb); k_violation("stderr-output:wide", "[%s]: %s", FORMAT_NAMES[TEXT_FORMATS[fi]], eb); }
		if (!(kind == 2 && mi == 1)) for (int c = 0; c < n; c++) { snprintf(w, sizeof w, "qb%03d", c); if (!strstr(out, w)) { k_violation("text-lost:wide", "%s number %d of %d is missing from the %s output", kind == 0 ? "table cell" : kind == 1 ? "list item" : "footnote", c + 1, n, FORMAT_NAMES[TEXT_FORMATS[fi]]); break; } }
		k_outcome(k_fnv(out, strlen(out), K_FNV0 + fi)); free(out);
	}
	d_string_free(d, true); POOL_DRAIN();
}
static void desc_wt(uint64_t i, FILE *o) { int mi = i % 2; i /= 2; int fi = i % 7; i /= 7; int ni = i % 6; int kind = (int)(i / 6); fprintf(o, "\"construct\":\"%s\",\"count\":%d,\"format\":\"%s\",\"mode\":\"%s\"", kind == 0 ? "table-columns" : kind == 1 ? "list-items" : "footnotes", WT_N[ni], FORMAT_NAMES[TEXT_FORMATS[fi]], mi ? "compat" : "mmd"); }
#define NSP 8

/* the last line has no line ending and is 1-3 plain bytes: it must reach the output (the rendering has more occurrences of it than the rendering of the document without that line) */
static const char *LL_PRE[8] = { "", "foo\n", "Total:\n\n", "# H\n\n", "* a\n\n", "```\nc\n```\n", "    code\n\n", "| a |\n|---|\n| b |\n\n" };
static const char *LL_LAST[7] = { "Q", "7", "Zq", "\xc3\xa9", "Qz9", "x", "Q " };
static size_t ll_count(const char *h, const char *n) { size_t c = 0, l = strlen(n); while (l && n[l - 1] == ' ') l--; for (const char *p = h; *p; p++) if (!strncmp(p, n, l)) c++; return c; }
static void run_ll(uint64_t i) {
	int mi = i % 2; i /= 2; int fi = i % 7; i /= 7; int li = i % 7; int pi = (int)(i / 7);
	char doc[128]; snprintf(doc, sizeof doc, "%s%s", LL_PRE[pi], LL_LAST[li]);
	POOL_INIT(); char *out = NULL, *base = NULL; srand(1);
	K_TRY(out = mmd_string_convert(doc, MODES[mi], TEXT_FORMATS[fi], 0));
	if (k_exited) { k_violation("exit-called:last-line", "conversion called exit(%d)", (int)k_exit_status); POOL_DRAIN(); return; }
	srand(1); K_TRY(base = mmd_string_convert(LL_PRE[pi], MODES[mi], TEXT_FORMATS[fi], 0));
	if (out && base) {
		if (ll_count(out, LL_LAST[li]) <= ll_count(base, LL_LAST[li])) k_violation("text-lost:last-line-without-newline", "the last line %s (no line ending) is missing from the %s output", LL_LAST[li], FORMAT_NAMES[TEXT_FORMATS[fi]]);
		k_outcome(k_fnv(out, strlen(out), K_FNV0 + fi));
	} else if (!out) k_violation("null-result", "mmd_string_convert returned NULL [%s]", FORMAT_NAMES[TEXT_FORMATS[fi]]);
	free(out); free(base); POOL_DRAIN();
}
static void desc_ll(uint64_t i, FILE *o) { int mi = i % 2; i /= 2; int fi = i % 7; i /= 7; int li = i % 7; int pi = (int)(i / 7); char doc[128]; snprintf(doc, sizeof doc, "%s%s", LL_PRE[pi], LL_LAST[li]); k_json_bytes(o, "src", doc, strlen(doc)); fprintf(o, ",\"format\":\"%s\",\"mode\":\"%s\"", FORMAT_NAMES[TEXT_FORMATS[fi]], mi ? "compat" : "mmd"); }

static space SP[NSP];
static void sp_run(int k, uint64_t idx) { space_pt p = space_decode(&SP[k], idx); size_t n = space_doc(&SP[k], &p, docbuf, sizeof docbuf); conv_case(docbuf, n, p.fmt, p.ext); }
#define SPFN(k) static void run##k(uint64_t i) { sp_run(k, i); } static void desc##k(uint64_t i, FILE *o) { space_desc(&SP[k], i, o); }
SPFN(0) SPFN(1) SPFN(2) SPFN(3) SPFN(4) SPFN(5) SPFN(6) SPFN(7)

static const int CTX8[8] = { 0, 1, 2, 3, 4, 5, 6, 7 };
static const int CTX4[4] = { 0, 1, 3, 4 };
static const int CTXQ[3] = { 1, 6, 7 };
static const short HL[2] = { FORMAT_HTML, FORMAT_LATEX };

int main(int argc, char **argv) {
	A_inline = k_alpha_load("inline"); A_lines = k_alpha_load("lines"); A_linecore = k_alpha_sub(A_lines, 0, 36);
	A_macro = k_alpha_load("macro"); A_pre = k_alpha_load("ctx_pre"); A_post = k_alpha_load("ctx_post");
	SP[0] = (space){ .a = A_lines, .minlen = 1, .maxlen = 3, .fmts = TEXT_FORMATS, .nfmt = 7, .exts = MODES, .next = 2 };
	SP[1] = (space){ .a = A_inline, .minlen = 1, .maxlen = 2, .pre = A_pre, .post = A_post, .ctxs = CTX8, .nctx = 8, .fmts = TEXT_FORMATS, .nfmt = 7, .exts = MODES, .next = 2 };
	SP[2] = (space){ .a = A_macro, .minlen = 1, .maxlen = 2, .fmts = TEXT_FORMATS, .nfmt = 7, .exts = EXTSETS, .next = 8 };
	SP[3] = (space){ .a = A_linecore, .minlen = 4, .maxlen = 4, .fmts = TEXT_FORMATS, .nfmt = 7, .exts = MODES, .next = 2 };
	SP[4] = (space){ .a = A_lines, .minlen = 4, .maxlen = 4, .fmts = HL, .nfmt = 2, .exts = MODES, .next = 1 };
	SP[5] = (space){ .a = A_linecore, .minlen = 5, .maxlen = 5, .fmts = HL, .nfmt = 1, .exts = MODES, .next = 2 };
	SP[6] = (space){ .a = A_inline, .minlen = 3, .maxlen = 3, .pre = A_pre, .post = A_post, .ctxs = CTX4, .nctx = 4, .fmts = TEXT_FORMATS, .nfmt = 7, .exts = MODES, .next = 2 };
	SP[7] = (space){ .a = k_alpha_sub(A_inline, 0, 60), .minlen = 3, .maxlen = 3, .pre = A_pre, .post = A_post, .ctxs = CTXQ, .nctx = 3, .fmts = TEXT_FORMATS, .nfmt = 7, .exts = MODES, .next = 1 };
	k_level L[] = {
		{ "q_lines3", space_count(&SP[0]), run0, desc0, "qt", "all line sequences len<=3 over the full line alphabet x 7 writers x {MMD,compat}" },
		{ "q_inline2", space_count(&SP[1]), run1, desc1, "qt", "inline sequences len<=2 x 8 contexts x 7 writers x {MMD,compat}" },
		{ "q_macro2", space_count(&SP[2]), run2, desc2, "qt", "macro fragments alone and in ordered pairs x 7 writers x 8 extension sets" },
		{ "q_inline3core", space_count(&SP[7]), run7, desc7, "qt", "inline core (60 fragments) len 3 in {list item, footnote, definition} x 7 writers, MMD" },
		{ "q_deep_nesting", 5 * 5 * 7 * 2, run_dn, desc_dn, "qt", "5 nesting constructs (list/quote staircases, list inside a footnote) x depth {20,60,150,300,400} (below the built-in limits) x 7 writers x {MMD,compat}: innermost text rendered, nothing on stderr" },
		{ "q_last_line", 8 * 7 * 7 * 2, run_ll, desc_ll, "qt", "8 prefixes x 7 last lines of 1-3 plain bytes without a line ending x 7 writers x {MMD,compat}: the last line reaches the output" },
		{ "q_wide", 3 * 6 * 7 * 2, run_wt, desc_wt, "qt", "tables of 10..130 columns, lists of 10..130 items, 10..130 footnotes x 7 writers x {MMD,compat}: every cell/item/note word rendered, nothing on stderr" },
		{ "t_lines4core", space_count(&SP[3]), run3, desc3, "t", "one-per-kind lines len 4 x 7 writers x {MMD,compat}" },
		{ "t_inline3", space_count(&SP[6]), run6, desc6, "t", "inline sequences len 3 x 4 contexts x 7 writers x {MMD,compat}" },
		{ "t_lines4full", space_count(&SP[4]), run4, desc4, "t", "full line alphabet len 4 x {html,latex} x MMD" },
		{ "t_lines5core", space_count(&SP[5]), run5, desc5, "t", "one-per-kind lines len 5 x html x {MMD,compat}" },
	};
	return k_main(argc, argv, L, sizeof L / sizeof L[0]);
}
