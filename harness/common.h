/* Shared driver pieces: configuration grid, pool bracketing, caller-side DString use. */
#ifndef VP_COMMON_H
#define VP_COMMON_H
#include "kernel.h"
#include <malloc.h>
#include "libMultiMarkdown.h"
#include "d_string.h"
#include "token.h"
#include "mmd.h"

#define NFORMATS 13
#define EXT_DEFAULT (EXT_SMART | EXT_NOTES | EXT_CRITIC | EXT_TRANSCLUDE)
#define EXT_COMPAT_SET (EXT_COMPATIBILITY | EXT_NO_LABELS | EXT_OBFUSCATE | EXT_NO_METADATA)
static const unsigned long EXTSETS[8] = {
	EXT_DEFAULT,
	EXT_COMPAT_SET,
	0,
	EXT_SMART | EXT_NOTES | EXT_CRITIC | EXT_OBFUSCATE | EXT_PROCESS_HTML | EXT_COMPLETE,
	EXT_DEFAULT | EXT_CRITIC_ACCEPT,
	EXT_DEFAULT | EXT_CRITIC_REJECT,
	EXT_DEFAULT | EXT_RANDOM_FOOT | EXT_RANDOM_LABELS,
	EXT_DEFAULT | EXT_NO_LABELS | EXT_PROCESS_HTML | EXT_SNIPPET,
};
static const char *FORMAT_NAMES[NFORMATS] = { "html", "epub", "latex", "beamer", "memoir", "fodt", "odt",
	"textbundle", "bundlezip", "opml", "itmz", "mmd", "html-assets" };
/* textual writers (one DString of text out) */
static const short TEXT_FORMATS[7] = { FORMAT_HTML, FORMAT_LATEX, FORMAT_BEAMER, FORMAT_MEMOIR, FORMAT_FODT, FORMAT_OPML, FORMAT_ITMZ };

#ifdef kUseObjectPool
#define POOL_INIT() token_pool_init()
#define POOL_DRAIN() token_pool_drain()
#define POOL_FREE() token_pool_free()
#define POOL_MODE "pool"
#else
#define POOL_INIT() ((void)0)
#define POOL_DRAIN() ((void)0)
#define POOL_FREE() ((void)0)
#define POOL_MODE "nopool"
#endif

/* Use a DString the way a caller would: capacity must not exceed the allocation, then append 4 kB. */
static inline void use_as_caller(DString *d, const char *who) {
	if (!d || !d->str) return;
	size_t us = malloc_usable_size(d->str);
	if (us && d->currentStringBufferSize > us)
		k_violation("dstring-capacity-exceeds-allocation", "%s: currentStringBufferSize=%lu malloc_usable_size=%lu", who,
		            (unsigned long)d->currentStringBufferSize, (unsigned long)us);
	else {
		static char pad[4096];
		if (!pad[0]) memset(pad, 'x', sizeof pad - 1);
		d_string_append_c_array(d, pad, sizeof pad - 1);      /* the binary-safe append (results may be ZIP data) */
	}
}

extern void ran_start(long seed);
extern long ran_arr_started; extern long *ran_arr_ptr;
/* put the process-global Knuth generator back into its fresh-process state */
static inline void rng_fresh(void) { ran_start(314159L); ran_arr_ptr = &ran_arr_started; srand(1); }

static inline void json_cfg(FILE *o, int fmt, unsigned long ext, int lang) {
	fprintf(o, "\"format\":\"%s\",\"ext\":%lu,\"lang\":%d,\"pool\":\"%s\"", fmt >= 0 && fmt < NFORMATS ? FORMAT_NAMES[fmt] : "?", ext, lang, POOL_MODE);
}
#endif
