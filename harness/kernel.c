#include "kernel.h"
#include <stdarg.h>
#include <unistd.h>
#include <fcntl.h>
#include <signal.h>
#include <time.h>
#include <errno.h>
#include <sys/mman.h>
#include <sys/wait.h>
#include <sys/resource.h>

/* ---------------------------------------------------------------- helpers */

uint64_t k_fnv(const void *p, size_t n, uint64_t h) {
	const unsigned char *s = p;
	while (n--) { h ^= *s++; h *= 1099511628211ULL; }
	return h;
}

const char *k_verif_dir(void) {
	const char *d = getenv("VERIF_DIR");
	return d ? d : "/verif";
}

int k_utf8_valid(const unsigned char *s, size_t n, size_t *bad_at) {
	size_t i = 0;
	while (i < n) {
		unsigned char c = s[i]; int k; unsigned cp;
		if (c < 0x80) { i++; continue; }
		else if (c >= 0xC2 && c <= 0xDF) { k = 1; cp = c & 0x1F; }
		else if (c >= 0xE0 && c <= 0xEF) { k = 2; cp = c & 0x0F; }
		else if (c >= 0xF0 && c <= 0xF4) { k = 3; cp = c & 0x07; }
		else { if (bad_at) *bad_at = i; return 0; }
		if (i + (size_t)k >= n) { if (bad_at) *bad_at = i; return 0; }
		if (k == 2 && c == 0xE0 && s[i + 1] < 0xA0) { if (bad_at) *bad_at = i; return 0; }
		for (int j = 1; j <= k; j++) {
			unsigned char d = s[i + j];
			if ((d & 0xC0) != 0x80) { if (bad_at) *bad_at = i; return 0; }
			cp = (cp << 6) | (d & 0x3F);
		}
		if ((k == 2 && cp < 0x800) || (k == 3 && (cp < 0x10000 || cp > 0x10FFFF)) || (cp >= 0xD800 && cp <= 0xDFFF)) {
			if (bad_at) *bad_at = i; return 0;
		}
		i += k + 1;
	}
	return 1;
}

void k_json_bytes(FILE *o, const char *key, const void *p, size_t n) {
	const unsigned char *s = p;
	fprintf(o, "\"%s\":\"", key);
	for (size_t i = 0; i < n; i++) {
		unsigned char c = s[i];
		if (c == '"' || c == '\\') fprintf(o, "\\%c", c);
		else if (c >= 0x20 && c < 0x7f) fputc(c, o);
		else fprintf(o, "\\u%04x", c);
	}
	fputc('"', o);
}

/* ---------------------------------------------------------------- alphabets */

k_alpha *k_alpha_load(const char *name) {
	char path[1024];
	snprintf(path, sizeof path, "%s/alphabets/%s.txt", k_verif_dir(), name);
	FILE *f = fopen(path, "rb");
	if (!f) { fprintf(stderr, "kernel: cannot open alphabet %s\n", path); _exit(3); }
	k_alpha *a = calloc(1, sizeof *a);
	int cap = 64; a->f = calloc(cap, sizeof(k_frag));
	char *line = NULL; size_t lc = 0; ssize_t len;
	while ((len = getline(&line, &lc, f)) >= 0) {
		if (len && line[len - 1] == '\n') line[--len] = 0;
		if (len >= 2 && line[0] == ';' && line[1] == ';') continue;
		if (len == 0) continue;
		unsigned char *out = malloc(len + 1); size_t n = 0;
		for (ssize_t i = 0; i < len; i++) {
			if (line[i] != '\\' || i + 1 >= len) { out[n++] = line[i]; continue; }
			char c = line[++i];
			switch (c) {
				case 'n': out[n++] = '\n'; break;
				case 't': out[n++] = '\t'; break;
				case 'r': out[n++] = '\r'; break;
				case 's': out[n++] = ' '; break;
				case 'z': break;                       /* empty */
				case '\\': out[n++] = '\\'; break;
				case 'x': {
					char h[3] = { line[i + 1], line[i + 2], 0 }; i += 2;
					out[n++] = (unsigned char)strtoul(h, NULL, 16); break;
				}
				case 'R': {   /* \R<count>{text} : repeat */
					long cnt = strtol(line + i + 1, NULL, 10);
					char *b = strchr(line + i, '{'), *e = NULL;
					if (b) for (e = b + 1; *e && *e != '}'; e++) if (*e == '\\' && e[1]) e++;
					if (!b || !e || !*e) { fprintf(stderr, "bad \\R in %s\n", path); _exit(3); }
					size_t tl = e - b - 1;
					/* nested escapes inside the repeated text: \n \t \s \xHH */
					unsigned char *t = malloc(tl + 1); size_t tn = 0;
					for (size_t q = 0; q < tl; q++) {
						if (b[1 + q] == '\\' && q + 3 < tl + 1 && b[2 + q] == 'x' && q + 3 < tl) { char h[3] = { b[3 + q], b[4 + q], 0 }; t[tn++] = (unsigned char)strtoul(h, NULL, 16); q += 3; }
						else if (b[1 + q] == '\\' && q + 1 < tl) { q++; char d = b[1 + q]; t[tn++] = d == 'n' ? '\n' : d == 't' ? '\t' : d == 's' ? ' ' : d; }
						else t[tn++] = b[1 + q];
					}
					out = realloc(out, n + cnt * tn + (len - (e - line)) + 8);
					for (long r = 0; r < cnt; r++) { memcpy(out + n, t, tn); n += tn; }
					free(t);
					i = e - line;
					break;
				}
				default: out[n++] = '\\'; out[n++] = c; break;
			}
		}
		out[n] = 0;
		if (a->n == cap) { cap *= 2; a->f = realloc(a->f, cap * sizeof(k_frag)); }
		a->f[a->n].s = out; a->f[a->n].n = n; a->n++;
	}
	free(line); fclose(f);
	return a;
}

k_alpha *k_alpha_sub(const k_alpha *a, int first, int count) {
	k_alpha *b = calloc(1, sizeof *b);
	if (first + count > a->n) count = a->n - first;
	b->f = a->f + first; b->n = count;
	return b;
}

uint64_t k_seq_count(int n, int minlen, int maxlen) {
	uint64_t tot = 0, p = 1;
	for (int l = 1; l <= maxlen; l++) { p *= (uint64_t)n; if (l >= minlen) tot += p; }
	if (minlen == 0) tot += 1;
	return tot;
}

int k_seq_decode(uint64_t idx, int n, int minlen, int maxlen, int *out) {
	if (minlen == 0) { if (idx == 0) return 0; idx--; minlen = 1; }
	uint64_t p = 1;
	for (int l = 1; l <= maxlen; l++) {
		p *= (uint64_t)n;
		if (l < minlen) continue;
		if (idx < p) {
			for (int k = l - 1; k >= 0; k--) { out[k] = (int)(idx % n); idx /= n; }
			return l;
		}
		idx -= p;
	}
	return -1;
}

/* ---------------------------------------------------------------- interposers */

jmp_buf k_jb; volatile int k_in_case, k_exited, k_exit_status;
void __real_exit(int);
void __wrap_exit(int c) {
	if (k_in_case) { k_exit_status = c; longjmp(k_jb, 1); }
	fflush(NULL);
	_exit(c);
}
time_t __wrap_time(time_t *t) { time_t v = 1700000000; if (t) *t = v; return v; }

/* ---------------------------------------------------------------- supervisor */

#define MAXW 64
#define BITMAP_BITS (1u << 26)
#define MAXNOTE 16
typedef struct {
	volatile uint64_t cur, hi; volatile int64_t start_ns; volatile int busy;
	volatile uint64_t done, viols;
	volatile long notes[MAXNOTE];
} slot_t;
typedef struct {
	volatile uint64_t next;
	volatile int stop;
	char notekeys[MAXNOTE][32]; volatile int nnotes;
	slot_t slot[MAXW];
} shared_t;

static shared_t *S; static uint64_t *bitmap;
static int my_slot = -1; static k_level *cur_level; static uint64_t cur_idx;
static int out_fd = -1; static int err_fds[MAXW];
int k_replaying = 0;
static int replay_viols = 0;
#define MAXSIG 64
static struct { char sig[160]; long n; } sigtab[MAXSIG]; static int nsig;

static int64_t now_ns(void) { struct timespec ts; clock_gettime(CLOCK_MONOTONIC, &ts); return (int64_t)ts.tv_sec * 1000000000LL + ts.tv_nsec; }

static void emit(char *buf, size_t n) {
	if (out_fd < 0) { fwrite(buf, 1, n, stdout); return; }
	size_t off = 0;
	while (off < n) { ssize_t w = write(out_fd, buf + off, n - off); if (w <= 0) break; off += w; }
}

void k_outcome(uint64_t h) {
	if (!bitmap) return;
	h ^= h >> 29; h *= 0xbf58476d1ce4e5b9ULL; h ^= h >> 32;
	uint32_t b = (uint32_t)(h & (BITMAP_BITS - 1));
	__atomic_fetch_or(&bitmap[b >> 6], 1ULL << (b & 63), __ATOMIC_RELAXED);
}

void k_note(const char *key, long v) {
	if (!S || my_slot < 0) return;
	int i;
	for (i = 0; i < S->nnotes; i++) if (!strcmp(S->notekeys[i], key)) break;
	if (i == S->nnotes) return;          /* keys are registered by the parent: see k_main */
	S->slot[my_slot].notes[i] += v;
}

size_t k_stderr_len(void) { off_t e = lseek(2, 0, SEEK_END); return e < 0 ? 0 : (size_t)e; }
size_t k_stderr_read(char *buf, size_t max) {
	ssize_t r = pread(2, buf, max - 1, 0); if (r < 0) r = 0; buf[r] = 0; return r;
}

void k_violation(const char *sig, const char *fmt, ...) {
	int i;
	for (i = 0; i < nsig; i++) if (!strcmp(sigtab[i].sig, sig)) break;
	if (i == nsig && nsig < MAXSIG) { snprintf(sigtab[nsig].sig, sizeof sigtab[0].sig, "%s", sig); sigtab[nsig].n = 0; nsig++; }
	if (i < MAXSIG) sigtab[i].n++;
	if (my_slot >= 0) S->slot[my_slot].viols++;
	replay_viols++;
	if (i < MAXSIG && sigtab[i].n > 3 && !k_replaying) return;   /* keep the first few per signature per worker */
	char *buf = NULL; size_t bn = 0; FILE *m = open_memstream(&buf, &bn);
	fprintf(m, "{\"t\":\"viol\",\"level\":\"%s\",\"idx\":%llu,", cur_level ? cur_level->name : "", (unsigned long long)cur_idx);
	k_json_bytes(m, "sig", sig, strlen(sig));
	char det[4096]; va_list ap; va_start(ap, fmt); vsnprintf(det, sizeof det, fmt, ap); va_end(ap);
	fputc(',', m); k_json_bytes(m, "detail", det, strlen(det));
	if (cur_level && cur_level->desc) { fputc(',', m); cur_level->desc(cur_idx, m); }
	fprintf(m, "}\n"); fclose(m);
	emit(buf, bn); free(buf);
}

static void flush_sigcounts(void) {
	for (int i = 0; i < nsig; i++) {
		char *buf = NULL; size_t bn = 0; FILE *m = open_memstream(&buf, &bn);
		fprintf(m, "{\"t\":\"sigcount\",\"level\":\"%s\",", cur_level->name);
		k_json_bytes(m, "sig", sigtab[i].sig, strlen(sigtab[i].sig));
		fprintf(m, ",\"n\":%ld}\n", sigtab[i].n); fclose(m);
		emit(buf, bn); free(buf);
	}
	nsig = 0;
}

static int64_t deadline_ns;
static uint64_t chunk_sz;

static void worker(int w, k_level *lv, uint64_t lo, uint64_t hi) {
	my_slot = w; cur_level = lv;
	dup2(err_fds[w], 2);
	slot_t *sl = &S->slot[w];
	for (;;) {
		if (lo >= hi) {
			if (S->stop || now_ns() > deadline_ns) { S->stop = 1; break; }
			lo = __atomic_fetch_add(&S->next, chunk_sz, __ATOMIC_SEQ_CST);
			if (lo >= lv->ncases) break;
			hi = lo + chunk_sz; if (hi > lv->ncases) hi = lv->ncases;
		}
		sl->hi = hi;
		for (; lo < hi; lo++) {
			sl->cur = lo; cur_idx = lo;
			if (ftruncate(2, 0) == 0) lseek(2, 0, SEEK_SET);
			sl->start_ns = now_ns(); sl->busy = 1;
			lv->run(lo);
			sl->busy = 0; sl->done++;
		}
	}
	flush_sigcounts();
	_exit(0);
}

static void record_crash(k_level *lv, int w, uint64_t idx, const char *how) {
	char *buf = NULL; size_t bn = 0; FILE *m = open_memstream(&buf, &bn);
	fprintf(m, "{\"t\":\"crash\",\"level\":\"%s\",\"idx\":%llu,\"how\":\"%s\",", lv->name, (unsigned long long)idx, how);
	static char eb[16384]; ssize_t r = pread(err_fds[w], eb, sizeof eb - 1, 0); if (r < 0) r = 0;
	k_json_bytes(m, "stderr", eb, r);
	if (lv->desc) { fputc(',', m); lv->desc(idx, m); }
	fprintf(m, "}\n"); fclose(m);
	emit(buf, bn); free(buf);
}

static int run_level(k_level *lv, int nw, double hang_s) {
	memset((void *)S, 0, sizeof *S);
	memset(bitmap, 0, BITMAP_BITS / 8);
	/* note keys are fixed */
	const char *nk[] = { "unjudged", "judged", "skipped", "aux1", "aux2", "aux3", "aux4", "states", "transitions", "traces" };
	S->nnotes = sizeof nk / sizeof nk[0];
	for (int i = 0; i < S->nnotes; i++) snprintf(S->notekeys[i], 32, "%s", nk[i]);
	chunk_sz = lv->ncases / (nw * 64) + 1; if (chunk_sz > 4096) chunk_sz = 4096;
	pid_t pid[MAXW]; int64_t t0 = now_ns(); long crashes = 0;
	if ((uint64_t)nw > lv->ncases) nw = (int)lv->ncases ? (int)lv->ncases : 1;
	for (int w = 0; w < nw; w++) {
		pid[w] = fork();
		if (pid[w] == 0) worker(w, lv, 0, 0);
	}
	int live = nw;
	while (live > 0) {
		int st; pid_t p = waitpid(-1, &st, WNOHANG);
		if (p > 0) {
			int w; for (w = 0; w < nw; w++) if (pid[w] == p) break;
			if (w == nw) continue;
			if (WIFEXITED(st) && WEXITSTATUS(st) == 0) { pid[w] = 0; live--; continue; }
			/* abnormal: locate the case, record, restart after it */
			slot_t *sl = &S->slot[w]; uint64_t idx = sl->cur, hi = sl->hi;
			char how[64];
			if (WIFSIGNALED(st)) snprintf(how, sizeof how, sl->busy == 2 ? "hang" : "signal %d", WTERMSIG(st));
			else snprintf(how, sizeof how, "exit %d", WEXITSTATUS(st));
			crashes++;
			if (crashes <= 2000) record_crash(lv, w, idx, how);
			sl->busy = 0; sl->done++;
			if (crashes > 20000) { S->stop = 1; }
			pid[w] = fork();
			if (pid[w] == 0) worker(w, lv, idx + 1, hi);
			continue;
		}
		/* hang watchdog */
		int64_t n = now_ns();
		for (int w = 0; w < nw; w++) {
			slot_t *sl = &S->slot[w];
			if (pid[w] > 0 && sl->busy == 1 && sl->start_ns && (double)(n - sl->start_ns) / 1e9 > hang_s) {
				sl->busy = 2; kill(pid[w], SIGKILL);
			}
		}
		usleep(2000);
	}
	uint64_t done = 0, viols = 0; long notes[MAXNOTE] = {0};
	for (int w = 0; w < nw; w++) { done += S->slot[w].done; viols += S->slot[w].viols; for (int i = 0; i < S->nnotes; i++) notes[i] += S->slot[w].notes[i]; }
	uint64_t pc = 0; for (size_t i = 0; i < BITMAP_BITS / 64; i++) pc += __builtin_popcountll(bitmap[i]);
	char *buf = NULL; size_t bn = 0; FILE *m = open_memstream(&buf, &bn);
	fprintf(m, "{\"t\":\"level\",\"name\":\"%s\",\"cases\":%llu,\"done\":%llu,\"exhaustive\":%s,\"wall\":%.2f,\"distinct\":%llu,\"crashes\":%ld,\"viols\":%llu,",
	        lv->name, (unsigned long long)lv->ncases, (unsigned long long)done, done == lv->ncases ? "true" : "false",
	        (now_ns() - t0) / 1e9, (unsigned long long)pc, crashes, (unsigned long long)viols);
	for (int i = 0; i < S->nnotes; i++) if (notes[i]) fprintf(m, "\"n_%s\":%ld,", S->notekeys[i], notes[i]);
	k_json_bytes(m, "what", lv->what ? lv->what : "", lv->what ? strlen(lv->what) : 0);
	fprintf(m, "}\n"); fclose(m); emit(buf, bn); free(buf);
	/* samples: described, not re-run */
	if (lv->desc && lv->ncases) {
		uint64_t pts[5] = { 0, lv->ncases / 4, lv->ncases / 2, (lv->ncases / 4) * 3, lv->ncases - 1 };
		for (int i = 0; i < 5; i++) {
			if (i && pts[i] == pts[i - 1]) continue;
			buf = NULL; bn = 0; m = open_memstream(&buf, &bn);
			fprintf(m, "{\"t\":\"sample\",\"level\":\"%s\",\"idx\":%llu,", lv->name, (unsigned long long)pts[i]);
			lv->desc(pts[i], m); fprintf(m, "}\n"); fclose(m); emit(buf, bn); free(buf);
		}
	}
	return S->stop;
}

int k_main(int argc, char **argv, k_level *levels, int nlevels) {
	const char *out = NULL, *tier = "q", *only = NULL, *replay = NULL;
	int nw = 16; double deadline = 3600, hang = 20;
	for (int i = 1; i < argc; i++) {
		if (!strcmp(argv[i], "--out") && i + 1 < argc) out = argv[++i];
		else if (!strcmp(argv[i], "--tier") && i + 1 < argc) tier = argv[++i];
		else if (!strcmp(argv[i], "--levels") && i + 1 < argc) only = argv[++i];
		else if (!strcmp(argv[i], "--workers") && i + 1 < argc) nw = atoi(argv[++i]);
		else if (!strcmp(argv[i], "--deadline") && i + 1 < argc) deadline = atof(argv[++i]);
		else if (!strcmp(argv[i], "--hang") && i + 1 < argc) hang = atof(argv[++i]);
		else if (!strcmp(argv[i], "--replay") && i + 1 < argc) replay = argv[++i];
		else if (!strcmp(argv[i], "--list")) {
			for (int l = 0; l < nlevels; l++) printf("%s\t%s\t%llu\t%s\n", levels[l].name, levels[l].tiers, (unsigned long long)levels[l].ncases, levels[l].what ? levels[l].what : "");
			return 0;
		}
	}
	if (nw > MAXW) nw = MAXW; if (nw < 1) nw = 1;
	if (replay) {      /* --replay level:idx  : run one case in this process, no fork */
		char name[128]; unsigned long long idx = 0;
		const char *c = strrchr(replay, ':'); if (!c) return 3;
		snprintf(name, sizeof name, "%.*s", (int)(c - replay), replay); idx = strtoull(c + 1, NULL, 10);
		k_replaying = 1;
		for (int l = 0; l < nlevels; l++) if (!strcmp(levels[l].name, name)) {
			if (idx >= levels[l].ncases) { fprintf(stderr, "replay index out of range\n"); return 3; }
			cur_level = &levels[l]; cur_idx = idx;
			int efd = memfd_create("replay-stderr", 0);
			fflush(NULL);
			pid_t pr = fork();
			if (pr == 0) {
				dup2(efd, 2);
				levels[l].run(idx);
				fflush(NULL);
				_exit(replay_viols ? 1 : 0);
			}
			int st = 0; waitpid(pr, &st, 0);
			static char eb[65536]; ssize_t r = pread(efd, eb, sizeof eb - 1, 0); if (r < 0) r = 0;
			if (r) fwrite(eb, 1, r, stderr);
			if (WIFSIGNALED(st)) { fprintf(stderr, "replay: killed by signal %d\n", WTERMSIG(st)); return 128 + WTERMSIG(st); }
			return WEXITSTATUS(st);
		}
		fprintf(stderr, "no such level %s\n", name); return 3;
	}
	if (out) { out_fd = open(out, O_WRONLY | O_CREAT | O_APPEND, 0644); if (out_fd < 0) { perror(out); return 3; } }
	S = mmap(NULL, sizeof *S, PROT_READ | PROT_WRITE, MAP_SHARED | MAP_ANONYMOUS, -1, 0);
	bitmap = mmap(NULL, BITMAP_BITS / 8, PROT_READ | PROT_WRITE, MAP_SHARED | MAP_ANONYMOUS, -1, 0);
	for (int w = 0; w < nw; w++) err_fds[w] = memfd_create("worker-stderr", 0);
	deadline_ns = now_ns() + (int64_t)(deadline * 1e9);
	int stopped = 0;
	for (int l = 0; l < nlevels; l++) {
		if (!strchr(levels[l].tiers, tier[0])) continue;
		if (only) {
			char pat[160]; snprintf(pat, sizeof pat, ",%s,", levels[l].name);
			char hay[1024]; snprintf(hay, sizeof hay, ",%s,", only);
			if (!strstr(hay, pat)) continue;
		}
		if (stopped || now_ns() > deadline_ns) {
			char b[512]; int n = snprintf(b, sizeof b, "{\"t\":\"level\",\"name\":\"%s\",\"cases\":%llu,\"done\":0,\"exhaustive\":false,\"wall\":0,\"distinct\":0,\"crashes\":0,\"viols\":0,\"what\":\"not started: deadline\"}\n", levels[l].name, (unsigned long long)levels[l].ncases);
			emit(b, n); continue;
		}
		stopped = run_level(&levels[l], nw, hang);
	}
	return 0;
}

/* sanitizer defaults (the environment set by vp/core.py says the same) */
const char *__asan_default_options(void) { return "detect_leaks=0:allocator_may_return_null=1:detect_stack_use_after_return=0:handle_segv=1:symbolize=1"; }
const char *__ubsan_default_options(void) { return "print_stacktrace=1:halt_on_error=1"; }
const char *__tsan_default_options(void) { return "halt_on_error=1"; }
