/* C01: memory-safe, crash-free conversion.  Built with ASan+UBSan (pool on and pool off).
   Oracle: no sanitizer report, no fatal signal, no hang (supervisor) + caller-side DString use. */
#include "space.h"
#include "miniz.h"
#include <unistd.h>
#include <sys/stat.h>

static k_alpha *A_inline, *A_bytes, *A_inl, *A_core, *A_lines, *A_linecore, *A_macro, *A_pre, *A_post, *A_xml;
static char assets_dir[1024];
static char docbuf[1 << 17];

static k_alpha *alpha_cat(k_alpha *a, k_alpha *b) {
	k_alpha *c = calloc(1, sizeof *c); c->n = a->n + b->n; c->f = calloc(c->n, sizeof(k_frag));
	memcpy(c->f, a->f, a->n * sizeof(k_frag)); memcpy(c->f + a->n, b->f, b->n * sizeof(k_frag));
	return c;
}

static void convert_case(const char *doc, int fmt, unsigned long ext, int lang) {
	POOL_INIT();
	DString *src = d_string_new(doc);
	DString *out = NULL;
	srand(1);
	K_TRY(out = mmd_d_string_convert_to_data(src, ext, fmt, lang, assets_dir));
	if (!k_exited) {
		if (out) { k_outcome(k_fnv(out->str, out->currentStringLength, K_FNV0 + fmt)); use_as_caller(out, "convert_to_data result"); d_string_free(out, true); }
		use_as_caller(src, "source after convert_to_data");
		d_string_free(src, true);
	}
	POOL_DRAIN();
}

/* ---- document spaces */
#define NSP 16
static space SP[NSP];
static void sp_run(int k, uint64_t idx) { space_pt p = space_decode(&SP[k], idx); space_doc(&SP[k], &p, docbuf, sizeof docbuf); convert_case(docbuf, p.fmt, p.ext, p.lang); }
#define SPFN(k) static void run##k(uint64_t i) { sp_run(k, i); } static void desc##k(uint64_t i, FILE *o) { space_desc(&SP[k], i, o); }
SPFN(0) SPFN(1) SPFN(2) SPFN(3) SPFN(4) SPFN(5) SPFN(6) SPFN(7) SPFN(8) SPFN(9)

#ifdef kUseObjectPool
static const int CTX4[4] = { 0, 1, 3, 4 };
#define CTX4_NAME "{bare, list, quote, table cell}"
#else
static const int CTX4[4] = { 2, 5, 6, 7 };
#define CTX4_NAME "{nested list, heading, footnote, definition}"
#endif
static const int CTX8[8] = { 0, 1, 2, 3, 4, 5, 6, 7 };
static const int CTX2[2] = { 0, 6 };
static const short FMT5[5] = { FORMAT_HTML, FORMAT_LATEX, FORMAT_FODT, FORMAT_OPML, FORMAT_EPUB };

/* deep nesting: the built-in depth limits keep the call stack bounded, so a document nested far beyond them must still convert (same shapes as C07's ladder, here under ASan and for every text writer) */
#define DEEP_N 150000
static const char *DEEP[7][4] = { { "", "[", "]", "" }, { "`", "[", "]", "`" }, { "$", "(", ")", "$" }, { "", "(", ")", "" }, { "", "{++", "++}", "" }, { "```\n", "[", "]", "\n```" }, { "\\\\(", "{", "}", "\\\\)" } };
static char *deep_doc(int k) {
	size_t lo = strlen(DEEP[k][1]), lc = strlen(DEEP[k][2]); char *d = malloc(strlen(DEEP[k][0]) + (lo + lc) * DEEP_N + strlen(DEEP[k][3]) + 8), *p = d;
	p += sprintf(p, "%s", DEEP[k][0]); for (int i = 0; i < DEEP_N; i++) { memcpy(p, DEEP[k][1], lo); p += lo; } *p++ = 'x';
	for (int i = 0; i < DEEP_N; i++) { memcpy(p, DEEP[k][2], lc); p += lc; } p += sprintf(p, "%s\n", DEEP[k][3]); return d;
}
static void run_deep(uint64_t i) { int fi = i % 5; int k = (int)(i / 5); char *d = deep_doc(k); convert_case(d, FMT5[fi], EXT_DEFAULT, 0); free(d); }
static void desc_deep(uint64_t i, FILE *o) { int fi = i % 5; int k = (int)(i / 5); fprintf(o, "\"construct\":\"%s%s x %d ... %s%s\",", DEEP[k][0][0] == '`' || DEEP[k][0][0] == '$' ? "span " : "", DEEP[k][1], DEEP_N, DEEP[k][2], ""); json_cfg(o, FMT5[fi], EXT_DEFAULT, 0); }
static const unsigned long EXT2[2] = { EXT_DEFAULT, EXT_COMPAT_SET };
static const unsigned long EXT4[4] = { EXT_DEFAULT, EXT_COMPAT_SET, EXT_DEFAULT | EXT_CRITIC_ACCEPT, EXT_DEFAULT | EXT_RANDOM_FOOT | EXT_RANDOM_LABELS };

/* ---- extension subsets on pivot documents */
static const char *PIVOTS[6] = {
	"Title: T\nAuthor: A & B\n\n# H [lab]\n\n{{TOC}}\n\nText *e* **s** `c` [l](u \"t\") ![i](i.png) <a@b.c> \"q\" a--b x^2^ H~2~O[^f][#c][?g][>a] [%title]\n\n"
	"* a\n\n    b\n* c\n\n1. x\n\n> q\n\n```c\ncode\n```\n\n    ind\n\n| a | b |\n|:--|--:|\n| c | d |\n[Cap]\n\nterm\n: def\n\n[^f]: foot\n[#c]: cite\n[?g]: gloss\n[>a]: abbr\n\n## H2 ##\n\nS\n===\n\n<div>\n*h*\n</div>\n\n---\n",
	"{++a++} {--b--} {~~c~>d~~} {==e==}{>>f<<} $m$ $$n$$ \\\\(o\\\\) [^in line note] {{t.txt}} `r`{=html}\n\n| t |\n|---|\n| {++u++} |\n\n[x]: http://y.z/ \"T\" class=c\n\n[x] [x][] ![x]\n",
	"<?xml version=\"1.0\" encoding=\"utf-8\"?>\n<opml version=\"1.0\">\n<head><title>T</title></head>\n<body>\n<outline text=\"H\" _note=\"n&#10;\">\n<outline text=\"I\" _note=\"m\"/>\n</outline>\n<outline text=\"Metadata\">\n<outline text=\"title\" _note=\"T\"/>\n</outline>\n</body>\n</opml>\n",
	"<?xml version=\"1.0\" encoding=\"UTF-8\"?>\n<iThoughts>\n<topics>\n<topic uuid=\"1\" text=\"T\" note=\"n\">\n<topic uuid=\"2\" text=\"U\"/>\n</topic>\n</topics>\n</iThoughts>\n",
	"Setext\n======\n\n*   Bird\n*   Magic\n\n1986\\. What\n\nAT&T <http://a.b/?x=1&y=2> &copy; 4 < 5\n\n[id]: http://e.com/  \"Title\"\n\n![Alt][id] [l] [id]\n\nline  \nbreak\n",
	"",
};
#define NBITS 17
static uint64_t n_extsub_q, n_extsub_t; static unsigned long *extsub_q;
static void extsub_init(void) {
	unsigned long full = (1UL << NBITS) - 1; int n = 0;
	extsub_q = malloc(sizeof(unsigned long) * 700);
	for (unsigned long m = 0; m <= full; m++) { int pc = __builtin_popcountl(m); if (pc <= 2 || pc >= NBITS - 2) extsub_q[n++] = m; }
	n_extsub_q = n; n_extsub_t = full + 1;
}
static const short FMT7[7] = { FORMAT_HTML, FORMAT_LATEX, FORMAT_FODT, FORMAT_OPML, FORMAT_EPUB, FORMAT_ITMZ, FORMAT_MMD };
static void extsub_case(uint64_t idx, int quick, int *fmt, unsigned long *ext, int *piv) {
	if (quick) { *fmt = idx % NFORMATS; idx /= NFORMATS; } else { *fmt = FMT7[idx % 7]; idx /= 7; }
	*piv = idx % 6; idx /= 6; *ext = quick ? extsub_q[idx] : (unsigned long)idx;
}
static void run_extq(uint64_t i) { int f, p; unsigned long e; extsub_case(i, 1, &f, &e, &p); convert_case(PIVOTS[p], f, e, 0); }
static void run_extt(uint64_t i) { int f, p; unsigned long e; extsub_case(i, 0, &f, &e, &p); convert_case(PIVOTS[p], f, e, 0); }
static void desc_ext(uint64_t i, int q, FILE *o) { int f, p; unsigned long e; extsub_case(i, q, &f, &e, &p); fprintf(o, "\"pivot\":%d,", p); k_json_bytes(o, "src", PIVOTS[p], strlen(PIVOTS[p]) > 200 ? 200 : strlen(PIVOTS[p])); fputc(',', o); json_cfg(o, f, e, 0); }
static void desc_extq(uint64_t i, FILE *o) { desc_ext(i, 1, o); }
static void desc_extt(uint64_t i, FILE *o) { desc_ext(i, 0, o); }

/* ---- languages */
static const char *LANGDOC = "Title: T\nlanguage: xx\n\n\"a\" 'b' it's a--b c---d ... ''e''[^f][#c][?g]\n\n| t |\n|---|\n| c |\n[Cap]\n\n![fig](f.png)\n\n[^f]: n\n[#c]: c\n[?g]: g\n";
static void run_lang(uint64_t i) { int lang = i % 7; i /= 7; int fmt = i % NFORMATS; i /= NFORMATS; convert_case(LANGDOC, fmt, EXTSETS[i % 8], lang); }
static void desc_lang(uint64_t i, FILE *o) { int lang = i % 7; i /= 7; int fmt = i % NFORMATS; i /= NFORMATS; k_json_bytes(o, "src", LANGDOC, strlen(LANGDOC)); fputc(',', o); json_cfg(o, fmt, EXTSETS[i % 8], lang); }

/* ---- metadata entry points */
static const char *METADOCS[] = {
	"Title: abc\n\nbody\n", "Title: abc", "Title: abc\n", "Title: abc\nAuthor: x", "Title: a\n    b\nAuthor: x\n\nb\n",
	"---\ntitle: x\n---\n\nbody\n", "---\ntitle: x\n", "no metadata\n", "", "\n", "Title:\n", ":\n", "a:b:c\n\n", "Title: \xc3\xa0\xe2\x80\xa0",
	"my key: v1\nMy Key: v2\n\n", "x1: & < > \" '\n\nb", "\xef\xbb\xbfTitle: t\n\nText\n", "Title: abc\r\nAuthor: x\r\n\r\nbody\r\n", "Key : v\n\n", "K: v\n\n\nK2: w\n",
};
#define NMETADOCS (sizeof METADOCS / sizeof METADOCS[0])
static char big2k[2050];
static const char *MKEYS[] = { "title", "Title", "", "nokey", "my key", "mykey", "x1", "k", big2k, "author" };
static const char *MVALS[] = { "v", "", big2k, "a: b", "x\ny", "\xc3\xa0" };
#define NMKEYS 10
#define NMVALS 6
static void meta_case(uint64_t i, const char **doc, const char **key, const char **val, int *fam) {
	*fam = i % 3; i /= 3; *val = MVALS[i % NMVALS]; i /= NMVALS; *key = MKEYS[i % NMKEYS]; i /= NMKEYS; *doc = METADOCS[i % NMETADOCS];
}
static void run_meta(uint64_t i) {
	const char *doc, *key, *val; int fam; meta_case(i, &doc, &key, &val, &fam);
	POOL_INIT();
	size_t end = 0; char *r;
	uint64_t h = K_FNV0;
	if (fam == 0) {
		char *s = strdup(doc);
		h = k_fnv(&end, mmd_string_has_metadata(s, &end) ? sizeof end : 1, h);
		r = mmd_string_metadata_keys(s); if (r) { h = k_fnv(r, strlen(r), h); free(r); }
		r = mmd_string_metavalue_for_key(s, key); if (r) { h = k_fnv(r, strlen(r), h); free(r); }
		r = mmd_string_update_metavalue_for_key(s, key, val); if (r) { h = k_fnv(r, strlen(r), h); free(r); }
		free(s);
	} else if (fam == 1) {
		DString *d = d_string_new(doc);
		h = k_fnv(&end, mmd_d_string_has_metadata(d, &end) ? sizeof end : 1, h);
		r = mmd_d_string_metadata_keys(d); if (r) { h = k_fnv(r, strlen(r), h); free(r); }
		r = mmd_d_string_metavalue_for_key(d, key); if (r) { h = k_fnv(r, strlen(r), h); free(r); }
		mmd_d_string_update_metavalue_for_key(d, key, val); h = k_fnv(d->str, d->currentStringLength, h);
		use_as_caller(d, "source after update_metavalue");
		mmd_d_string_update_metavalue_for_key(d, "second", "w");
		d_string_free(d, true);
	} else {
		DString *d = d_string_new(doc);
		mmd_engine *e = mmd_engine_create_with_dstring(d, EXT_DEFAULT);
		h = k_fnv(&end, mmd_engine_has_metadata(e, &end) ? sizeof end : 1, h);
		r = mmd_engine_metadata_keys(e); if (r) { h = k_fnv(r, strlen(r), h); free(r); }
		r = mmd_engine_metavalue_for_key(e, key); if (r) { h = k_fnv(r, strlen(r), h); }   /* engine variant returns an internal pointer */
		mmd_engine_update_metavalue_for_key(e, key, val);
		mmd_engine_update_metavalue_for_key(e, "second", "w");
		r = mmd_engine_convert(e, FORMAT_HTML); if (r) { h = k_fnv(r, strlen(r), h); free(r); }
		use_as_caller(d, "engine source after update_metavalue");
		mmd_engine_free(e, true);
	}
	k_outcome(h);
	POOL_DRAIN();
}
static void desc_meta(uint64_t i, FILE *o) {
	const char *doc, *key, *val; int fam; meta_case(i, &doc, &key, &val, &fam);
	k_json_bytes(o, "src", doc, strlen(doc)); fputc(',', o); k_json_bytes(o, "key", key, strlen(key) > 40 ? 40 : strlen(key)); fputc(',', o);
	k_json_bytes(o, "value", val, strlen(val) > 40 ? 40 : strlen(val)); fprintf(o, ",\"family\":%d,\"pool\":\"%s\"", fam, POOL_MODE);
}

/* ---- CriticMarkup accept/reject (+ every sub-range) */
static const char *CM[] = { "{++", "++}", "{--", "--}", "{>>", "<<}", "{~~", "~>", "~~}", "{==", "==}", "a", "\n\n", " ", "\\{" };
#define NCM 15
static k_alpha A_cm;
static size_t cm_doc(uint64_t seq, int maxlen, char *buf) { int d[8]; int L = k_seq_decode(seq, NCM, 1, maxlen, d); size_t n = 0; for (int j = 0; j < L; j++) { size_t l = strlen(CM[d[j]]); memcpy(buf + n, CM[d[j]], l); n += l; } buf[n] = 0; return n; }
static int cm_maxlen_whole = 4;
static void run_cm_whole(uint64_t i) {
	int rej = i & 1; char b[64]; cm_doc(i >> 1, cm_maxlen_whole, b);
	POOL_INIT();
	DString *d = d_string_new(b);
	if (rej) mmd_critic_markup_reject(d); else mmd_critic_markup_accept(d);
	k_outcome(k_fnv(d->str, d->currentStringLength, K_FNV0 + rej)); use_as_caller(d, "critic result"); d_string_free(d, true);
	POOL_DRAIN();
}
static void desc_cm_whole(uint64_t i, FILE *o) { char b[64]; size_t n = cm_doc(i >> 1, cm_maxlen_whole, b); k_json_bytes(o, "src", b, n); fprintf(o, ",\"op\":\"%s\"", i & 1 ? "reject" : "accept"); }
/* ranges: doc of <= L fragments, every (start,len) with start<=n, start+len<=n+1 ... padded to 26x26 grid */
#define RG 27
static int cm_maxlen_rng = 3;
static void run_cm_range(uint64_t i) {
	int rej = i & 1; i >>= 1; size_t len = i % RG; i /= RG; size_t start = i % RG; i /= RG;
	char b[64]; size_t n = cm_doc(i, cm_maxlen_rng, b);
	if (start > n + 1 || len > n + 2) return;      /* outside the grid for this document */
	POOL_INIT();
	DString *d = d_string_new(b);
	if (rej) mmd_critic_markup_reject_range(d, start, len); else mmd_critic_markup_accept_range(d, start, len);
	k_outcome(k_fnv(d->str, d->currentStringLength, K_FNV0 + rej + start * 31 + len)); d_string_free(d, true);
	POOL_DRAIN();
}
static void desc_cm_range(uint64_t i, FILE *o) {
	int rej = i & 1; i >>= 1; size_t len = i % RG; i /= RG; size_t start = i % RG; i /= RG; char b[64]; size_t n = cm_doc(i, cm_maxlen_rng, b);
	k_json_bytes(o, "src", b, n); fprintf(o, ",\"op\":\"%s_range\",\"start\":%lu,\"len\":%lu", rej ? "reject" : "accept", (unsigned long)start, (unsigned long)len);
}

/* ---- OPML / ITMZ readers */
static const char *XSKEL_PRE[] = { "", "<?xml version=\"1.0\" encoding=\"utf-8\"?>\n<opml version=\"1.0\">\n<head><title>T</title></head>\n<body>\n",
	"<?xml version=\"1.0\"?>\n<opml><body>\n<outline text=\"H\" _note=\"n\">\n", "<?xml version=\"1.0\"?>\n<opml><body>\n<outline text=\"Metadata\">\n",
	"<?xml version=\"1.0\" encoding=\"UTF-8\"?>\n<iThoughts>\n<topics>\n", "<?xml version=\"1.0\"?>\n<iThoughts><topics>\n<topic uuid=\"1\" text=\"T\" note=\"n\">\n" };
static const char *XSKEL_POST[] = { "", "</body>\n</opml>\n", "</outline>\n</body>\n</opml>\n", "</outline>\n</body>\n</opml>\n", "</topics>\n</iThoughts>\n", "</topic>\n</topics></iThoughts>\n" };
#define NXSKEL 6
static int xml_maxlen = 3;
static size_t xml_doc(uint64_t i, char *buf, int *skel, int *mode) {
	*mode = i % 4; i /= 4; *skel = i % NXSKEL; i /= NXSKEL; int d[8]; int L = k_seq_decode(i, A_xml->n, 1, xml_maxlen, d);
	size_t n = 0; size_t l = strlen(XSKEL_PRE[*skel]); memcpy(buf, XSKEL_PRE[*skel], l); n = l;
	for (int j = 0; j < L; j++) { memcpy(buf + n, A_xml->f[d[j]].s, A_xml->f[d[j]].n); n += A_xml->f[d[j]].n; }
	l = strlen(XSKEL_POST[*skel]); memcpy(buf + n, XSKEL_POST[*skel], l); n += l; buf[n] = 0; return n;
}
static DString *zip_wrap(const char *xml, size_t n) {
	mz_zip_archive z; memset(&z, 0, sizeof z);
	mz_zip_writer_init_heap(&z, 0, 1024);
	mz_zip_writer_add_mem(&z, "mapdata.xml", xml, n, MZ_BEST_COMPRESSION);
	void *p = NULL; size_t sz = 0; mz_zip_writer_finalize_heap_archive(&z, &p, &sz); mz_zip_writer_end(&z);
	DString *d = d_string_new(""); d_string_append_c_array(d, p, sz); free(p); return d;
}
static void reader_case(const char *xml, size_t n, int mode) {
	POOL_INIT();
	DString *out = NULL;
	if (mode == 0) { out = mmd_string_convert_opml_to_text(xml); }
	else if (mode == 1) { DString *s = d_string_new(xml); char *r = NULL; K_TRY(r = mmd_d_string_convert(s, EXT_DEFAULT | EXT_PARSE_OPML, FORMAT_HTML, 0)); if (!k_exited) { if (r) { k_outcome(k_fnv(r, strlen(r), 7)); free(r); } use_as_caller(s, "source after EXT_PARSE_OPML convert"); d_string_free(s, true); } }
	else if (mode == 2) { DString *z = zip_wrap(xml, n); out = mmd_d_string_convert_itmz_to_text(z); use_as_caller(z, "itmz source after convert_itmz_to_text"); d_string_free(z, true); }
	else { DString *z = zip_wrap(xml, n); char *r = NULL; K_TRY(r = mmd_d_string_convert(z, EXT_DEFAULT | EXT_PARSE_ITMZ, FORMAT_HTML, 0)); if (!k_exited) { if (r) { k_outcome(k_fnv(r, strlen(r), 9)); free(r); } use_as_caller(z, "source after EXT_PARSE_ITMZ convert"); d_string_free(z, true); } }
	if (out) { k_outcome(k_fnv(out->str, out->currentStringLength, mode)); use_as_caller(out, "reader result"); d_string_free(out, true); }
	POOL_DRAIN();
}
static void run_xml(uint64_t i) { int sk, mode; size_t n = xml_doc(i, docbuf, &sk, &mode); reader_case(docbuf, n, mode); }
static void desc_xml(uint64_t i, FILE *o) { int sk, mode; size_t n = xml_doc(i, docbuf, &sk, &mode); k_json_bytes(o, "src", docbuf, n); fprintf(o, ",\"mode\":\"%s\",\"pool\":\"%s\"", (const char *[]){ "opml_to_text", "convert+PARSE_OPML", "itmz_to_text(zip)", "convert+PARSE_ITMZ(zip)" }[mode], POOL_MODE); }
/* archive reader: every prefix and every single-byte substitution of one valid ITMZ archive */
static DString *seed_zip;
static void run_zipmut(uint64_t i) {
	size_t n = seed_zip->currentStringLength; DString *z = d_string_new("");
	if (i <= n) d_string_append_c_array(z, seed_zip->str, i);
	else { uint64_t k = i - n - 1; size_t pos = k / 2; d_string_append_c_array(z, seed_zip->str, n); z->str[pos] = (k & 1) ? (char)0xFF : 0; }
	POOL_INIT();
	DString *out = mmd_d_string_convert_itmz_to_text(z);
	if (out) { k_outcome(k_fnv(out->str, out->currentStringLength, 3)); d_string_free(out, true); }
	d_string_free(z, true);
	POOL_DRAIN();
}
static void desc_zipmut(uint64_t i, FILE *o) { size_t n = seed_zip->currentStringLength; if (i <= n) fprintf(o, "\"zip_prefix\":%llu,\"zip_len\":%lu", (unsigned long long)i, (unsigned long)n); else fprintf(o, "\"zip_subst_at\":%llu,\"byte\":\"%s\"", (unsigned long long)((i - n - 1) / 2), ((i - n - 1) & 1) ? "ff" : "00"); }

/* ---- convert_to_file, all three families, all formats, into a scratch dir */
static char scratch[1024];
static void run_tofile(uint64_t i) {
	int fam = i % 3; i /= 3; int fmt = i % NFORMATS; i /= NFORMATS; const char *doc = (const char *)A_macro->f[i].s;
	char path[1200]; snprintf(path, sizeof path, "%s/out-%d", scratch, (int)getpid());
	POOL_INIT();
	K_TRY({
		if (fam == 0) mmd_string_convert_to_file(doc, EXT_DEFAULT, fmt, 0, assets_dir, path);
		else if (fam == 1) { DString *d = d_string_new(doc); mmd_d_string_convert_to_file(d, EXT_DEFAULT, fmt, 0, assets_dir, path); d_string_free(d, true); }
		else { mmd_engine *e = mmd_engine_create_with_string(doc, EXT_DEFAULT); mmd_engine_convert_to_file(e, fmt, assets_dir, path); mmd_engine_free(e, true); }
	});
	POOL_DRAIN();
	struct stat st; if (stat(path, &st) == 0) { k_outcome(st.st_size * 131 + fmt); unlink(path); }
	char p2[1300]; const char *sfx[] = { ".html", ".epub", ".tex", ".fodt", ".odt", ".textbundle", ".opml", ".itmz", ".txt" };
	for (int s = 0; s < 9; s++) { snprintf(p2, sizeof p2, "%s%s", path, sfx[s]); unlink(p2); }
}
static void desc_tofile(uint64_t i, FILE *o) { int fam = i % 3; i /= 3; int fmt = i % NFORMATS; i /= NFORMATS; k_json_bytes(o, "src", A_macro->f[i].s, A_macro->f[i].n > 300 ? 300 : A_macro->f[i].n); fprintf(o, ",\"family\":%d,", fam); json_cfg(o, fmt, EXT_DEFAULT, 0); }

/* ---- one engine reused for several conversions (re-parse frees / keeps what the previous parse built) */
static k_alpha *A_reuse;
static void reuse_decode(uint64_t i, int *di, int *f1, int *f2) { *f2 = i % NFORMATS; i /= NFORMATS; *f1 = i % NFORMATS; i /= NFORMATS; *di = (int)i; }
static void run_reuse(uint64_t i) {
	int di, f1, f2; reuse_decode(i, &di, &f1, &f2);
	POOL_INIT();
	mmd_engine *e = mmd_engine_create_with_string((const char *)A_reuse->f[di].s, EXT_DEFAULT);
	uint64_t h = K_FNV0;
	K_TRY({
		srand(1); DString *a = mmd_engine_convert_to_data(e, f1, assets_dir); if (a) { h = k_fnv(a->str, a->currentStringLength, h); d_string_free(a, true); }
		srand(1); DString *b = mmd_engine_convert_to_data(e, f2, assets_dir); if (b) { h = k_fnv(b->str, b->currentStringLength, h); d_string_free(b, true); }
		size_t end; mmd_engine_has_metadata(e, &end);
		char *c = mmd_engine_convert(e, FORMAT_HTML); if (c) { h = k_fnv(c, strlen(c), h); free(c); }
	});
	if (!k_exited) mmd_engine_free(e, true);
	k_outcome(h);
	POOL_DRAIN();
}
static void desc_reuse(uint64_t i, FILE *o) { int di, f1, f2; reuse_decode(i, &di, &f1, &f2); k_json_bytes(o, "src", A_reuse->f[di].s, A_reuse->f[di].n > 300 ? 300 : A_reuse->f[di].n); fprintf(o, ",\"engine_reuse\":[\"%s\",\"%s\",\"html\"],\"pool\":\"%s\"", FORMAT_NAMES[f1], FORMAT_NAMES[f2], POOL_MODE); }

int main(int argc, char **argv) {
	snprintf(assets_dir, sizeof assets_dir, "%s/fixtures/assets", k_verif_dir());
	snprintf(scratch, sizeof scratch, "%s/build/scratch", k_verif_dir()); mkdir(scratch, 0755);
	memset(big2k, 'k', sizeof big2k - 1);
	A_inline = k_alpha_load("inline"); A_bytes = k_alpha_load("bytes"); A_inl = alpha_cat(A_inline, A_bytes);
	A_core = alpha_cat(k_alpha_sub(A_inline, 0, 60), A_bytes);
	A_lines = k_alpha_load("lines"); A_linecore = k_alpha_sub(A_lines, 0, 36); A_macro = k_alpha_load("macro");
	A_pre = k_alpha_load("ctx_pre"); A_post = k_alpha_load("ctx_post"); A_xml = k_alpha_load("xml");
	extsub_init();
	A_reuse = alpha_cat(A_macro, A_linecore);
	{ const char *x = PIVOTS[3]; seed_zip = zip_wrap(x, strlen(x)); }

	/* quick */
	SP[0] = (space){ .a = A_inl, .minlen = 1, .maxlen = 2, .pre = A_pre, .post = A_post, .ctxs = CTX4, .nctx = 4, .fmts = ALL_FORMATS, .nfmt = NFORMATS, .exts = EXT2, .next = 2 };
	SP[1] = (space){ .a = A_lines, .minlen = 1, .maxlen = 2, .fmts = ALL_FORMATS, .nfmt = NFORMATS, .exts = EXT4, .next = 4 };
	SP[2] = (space){ .a = A_macro, .minlen = 1, .maxlen = 1, .fmts = ALL_FORMATS, .nfmt = NFORMATS, .exts = EXTSETS, .next = 8 };
	/* thorough */
	SP[3] = (space){ .a = A_inl, .minlen = 1, .maxlen = 2, .pre = A_pre, .post = A_post, .ctxs = CTX8, .nctx = 8, .fmts = ALL_FORMATS, .nfmt = NFORMATS, .exts = EXT4, .next = 4 };
	SP[4] = (space){ .a = A_core, .minlen = 3, .maxlen = 3, .pre = A_pre, .post = A_post, .ctxs = CTX2, .nctx = 2, .fmts = FMT5, .nfmt = 5, .exts = EXT2, .next = 2 };
	SP[5] = (space){ .a = A_lines, .minlen = 3, .maxlen = 3, .fmts = ALL_FORMATS, .nfmt = NFORMATS, .exts = EXT2, .next = 2 };
	SP[6] = (space){ .a = A_linecore, .minlen = 4, .maxlen = 4, .fmts = FMT5, .nfmt = 3, .exts = EXT2, .next = 1 };
	SP[7] = (space){ .a = alpha_cat(A_macro, A_linecore), .minlen = 2, .maxlen = 2, .fmts = ALL_FORMATS, .nfmt = NFORMATS, .exts = EXT4, .next = 4 };
	static const short F1[1] = { FORMAT_HTML };
	(void)F1;
	uint64_t cmq = k_seq_count(NCM, 1, 3), cmt = k_seq_count(NCM, 1, 4), cmr2 = k_seq_count(NCM, 1, 2), cmr3 = k_seq_count(NCM, 1, 3);
	k_level L[] = {
		{ "q_inline2", space_count(&SP[0]), run0, desc0, "qt", "inline+invalid-byte fragments, len<=2 x contexts " CTX4_NAME " x 13 formats x {default,compat}" },
		{ "q_lines2", space_count(&SP[1]), run1, desc1, "qt", "line fragments len<=2 x 13 formats x 4 extension sets" },
		{ "q_macro1", space_count(&SP[2]), run2, desc2, "qt", "macro fragments x 13 formats x 8 extension sets" },
		{ "q_extsub", n_extsub_q * 6 * NFORMATS, run_extq, desc_extq, "qt", "extension subsets with <=2 bits set or <=2 clear (of 17) x 6 pivots x 13 formats" },
		{ "q_lang", 7 * NFORMATS * 8, run_lang, desc_lang, "qt", "7 languages x 13 formats x 8 extension sets" },
		{ "q_meta", NMETADOCS * NMKEYS * NMVALS * 3, run_meta, desc_meta, "qt", "metadata entry points: docs x keys x values x 3 API families" },
		{ "q_critic", cmq * 2, run_cm_whole, desc_cm_whole, "qt", "CriticMarkup accept/reject on all marker sequences len<=3" },
		{ "q_critic_range", cmr2 * 2 * RG * RG, run_cm_range, desc_cm_range, "qt", "accept/reject_range, every (start,len) on marker sequences len<=2" },
		{ "q_readers", k_seq_count(A_xml->n, 1, 2) * NXSKEL * 4, run_xml, desc_xml, "qt", "OPML/ITMZ readers: xml fragment sequences len<=2 in 6 skeletons x 4 entry points" },
		{ "q_zipmut", seed_zip->currentStringLength * 3 + 1, run_zipmut, desc_zipmut, "qt", "ITMZ archive reader: every prefix and every single-byte 00/FF substitution of a valid archive" },
		{ "q_deep", 7 * 5, run_deep, desc_deep, "qt", "7 constructs nested 150000 deep (brackets, brackets inside a code span / fence / math, parentheses, CriticMarkup additions) x {html, latex, fodt, opml, epub}: converts without exhausting the stack" },
		{ "q_tofile", (uint64_t)A_macro->n * NFORMATS * 3, run_tofile, desc_tofile, "qt", "convert_to_file: macro docs x 13 formats x 3 API families" },
		{ "q_engine_reuse", (uint64_t)(A_macro->n + 36) * NFORMATS * NFORMATS, run_reuse, desc_reuse, "qt", "one engine reused: convert(f1), convert(f2), has_metadata, convert(html) for macro and line documents x 13 x 13 formats" },
		{ "t_inline2", space_count(&SP[3]), run3, desc3, "t", "inline len<=2 x 8 contexts x 13 formats x 4 extension sets" },
		{ "t_lines3", space_count(&SP[5]), run5, desc5, "t", "line fragments len 3 x 13 formats x {default,compat}" },
		{ "t_extsub", n_extsub_t * 6 * 7, run_extt, desc_extt, "t", "all 2^17 extension subsets x 6 pivots x 7 formats" },
		{ "t_critic", cmt * 2, run_cm_whole, desc_cm_whole, "t", "CriticMarkup accept/reject on all marker sequences len<=4" },
		{ "t_critic_range", cmr3 * 2 * RG * RG, run_cm_range, desc_cm_range, "t", "accept/reject_range, every (start,len) on marker sequences len<=3" },
		{ "t_readers", k_seq_count(A_xml->n, 1, 3) * NXSKEL * 4, run_xml, desc_xml, "t", "OPML/ITMZ readers: xml sequences len<=3 in 6 skeletons x 4 entry points" },
		{ "t_macro2", space_count(&SP[7]), run7, desc7, "t", "ordered pairs over macro+line-core fragments x 13 formats x 4 extension sets" },
		{ "t_inline3", space_count(&SP[4]), run4, desc4, "t", "inline core len 3 x {bare, footnote} contexts x 5 formats x {default,compat}" },
		{ "t_lines4", space_count(&SP[6]), run6, desc6, "t", "one-per-kind lines len 4 x {html,latex,fodt} x default" },
	};
	(void)cmr3; (void)A_cm;
	return k_main(argc, argv, L, sizeof L / sizeof L[0]);
}
