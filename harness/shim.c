/* Entry points for the Python side (ctypes): every call is bracketed for the token pool, guarded against exit(),
   and returns malloc'd buffers that vp_free releases. */
#include "common.h"
#include <unistd.h>
#include <sys/mman.h>
#include "critic_markup.h"
#include "transclude.h"

int vp_exited, vp_exit_status;
static int err_fd = -1;
void vp_init(void) { if (err_fd < 0) { err_fd = memfd_create("shim-stderr", 0); dup2(err_fd, 2); } }
long vp_stderr_mark(void) { off_t e = lseek(2, 0, SEEK_END); return e < 0 ? 0 : (long)e; }
long vp_stderr_since(long mark, char *buf, long cap) { ssize_t r = pread(2, buf, cap - 1, mark); if (r < 0) r = 0; buf[r] = 0; return r; }
void vp_free(void *p) { free(p); }
void vp_rng_fresh(void) { rng_fresh(); }

/* text conversion through one of the three families: fam 0 string, 1 dstring, 2 engine */
char *vp_convert(const char *src, unsigned long ext, int fmt, int lang, int fam) {
	char *out = NULL; vp_exited = 0;
	POOL_INIT(); srand(1);
	K_TRY({
		if (fam == 0) out = mmd_string_convert(src, ext, fmt, lang);
		else if (fam == 1) { DString *d = d_string_new(src); out = mmd_d_string_convert(d, ext, fmt, lang); d_string_free(d, true); }
		else if (fam == 2) { mmd_engine *e = mmd_engine_create_with_string(src, ext); mmd_engine_set_language(e, lang); out = mmd_engine_convert(e, fmt); mmd_engine_free(e, true); }
		else if (fam == 3) { /* the same engine asked twice: the second answer */
			mmd_engine *e = mmd_engine_create_with_string(src, ext); mmd_engine_set_language(e, lang); char *first = mmd_engine_convert(e, fmt); free(first); out = mmd_engine_convert(e, fmt); mmd_engine_free(e, true); }
		else { /* an engine that has already produced a DString result and answered a metadata query */
			mmd_engine *e = mmd_engine_create_with_string(src, ext); mmd_engine_set_language(e, lang); DString *d0 = mmd_engine_convert_to_data(e, fmt, NULL); if (d0) d_string_free(d0, true);
			char *k = mmd_engine_metadata_keys(e); free(k); out = mmd_engine_convert(e, fmt); mmd_engine_free(e, true); }
	});
	if (k_exited) { vp_exited = 1; vp_exit_status = k_exit_status; out = NULL; }
	POOL_DRAIN();
	return out;
}
/* convert_to_data: returns malloc'd copy, *len set */
char *vp_convert_to_data(const char *src, size_t srclen, unsigned long ext, int fmt, int lang, const char *dir, int fam, size_t *len) {
	DString *res = NULL; vp_exited = 0; *len = 0;
	POOL_INIT(); srand(1);
	K_TRY({
		if (fam == 0) res = mmd_string_convert_to_data(src, ext, fmt, lang, dir);
		else if (fam == 1) { DString *d = d_string_new(""); d_string_append_c_array(d, src, srclen); res = mmd_d_string_convert_to_data(d, ext, fmt, lang, dir); d_string_free(d, true); }
		else { DString *d = d_string_new(""); d_string_append_c_array(d, src, srclen); mmd_engine *e = mmd_engine_create_with_dstring(d, ext); mmd_engine_set_language(e, lang); res = mmd_engine_convert_to_data(e, fmt, dir); mmd_engine_free(e, true); }
	});
	char *out = NULL;
	if (k_exited) { vp_exited = 1; vp_exit_status = k_exit_status; }
	else if (res) { out = malloc(res->currentStringLength + 1); memcpy(out, res->str, res->currentStringLength); out[res->currentStringLength] = 0; *len = res->currentStringLength; d_string_free(res, true); }
	POOL_DRAIN();
	return out;
}
void vp_convert_to_file(const char *src, unsigned long ext, int fmt, int lang, const char *dir, const char *path, int fam) {
	vp_exited = 0; POOL_INIT(); srand(1);
	K_TRY({
		if (fam == 0) mmd_string_convert_to_file(src, ext, fmt, lang, dir, path);
		else if (fam == 1) { DString *d = d_string_new(src); mmd_d_string_convert_to_file(d, ext, fmt, lang, dir, path); d_string_free(d, true); }
		else { mmd_engine *e = mmd_engine_create_with_string(src, ext); mmd_engine_set_language(e, lang); mmd_engine_convert_to_file(e, fmt, dir, path); mmd_engine_free(e, true); }
	});
	if (k_exited) vp_exited = 1;
	POOL_DRAIN();
}
/* metadata: op 0 has_metadata (returns "1 <end>" / "0 <end>"), 1 keys, 2 value for key, 3 update (returns new source) */
char *vp_meta(const char *src, int op, const char *key, const char *val, int fam) {
	char *out = NULL; size_t end = 0; char buf[64];
	POOL_INIT();
	if (fam == 0) {
		char *s = strdup(src);
		if (op == 0) { bool r = mmd_string_has_metadata(s, &end); snprintf(buf, sizeof buf, "%d %lu", r, (unsigned long)end); out = strdup(buf); }
		else if (op == 1) out = mmd_string_metadata_keys(s);
		else if (op == 2) out = mmd_string_metavalue_for_key(s, key);
		else out = mmd_string_update_metavalue_for_key(s, key, val);
		free(s);
	} else if (fam == 1) {
		DString *d = d_string_new(src);
		if (op == 0) { bool r = mmd_d_string_has_metadata(d, &end); snprintf(buf, sizeof buf, "%d %lu", r, (unsigned long)end); out = strdup(buf); }
		else if (op == 1) out = mmd_d_string_metadata_keys(d);
		else if (op == 2) out = mmd_d_string_metavalue_for_key(d, key);
		else { mmd_d_string_update_metavalue_for_key(d, key, val); out = strdup(d->str); }
		d_string_free(d, true);
	} else {
		DString *d = d_string_new(src);
		mmd_engine *e = mmd_engine_create_with_dstring(d, 0);
		if (op == 0) { bool r = mmd_engine_has_metadata(e, &end); snprintf(buf, sizeof buf, "%d %lu", r, (unsigned long)end); out = strdup(buf); }
		else if (op == 1) out = mmd_engine_metadata_keys(e);
		else if (op == 2) { char *v = mmd_engine_metavalue_for_key(e, key); out = v ? strdup(v) : NULL; }
		else { mmd_engine_update_metavalue_for_key(e, key, val); out = strdup(d->str); }
		mmd_engine_free(e, true);
	}
	POOL_DRAIN();
	return out;
}
/* a history of metadata updates on ONE reused engine: ops = "key\x1fvalue\x1e..." ; returns the final source followed by
   "\x1d" and, for every op, what the SAME engine answers for that key right after the update ("\x1e"-separated, "\x01" = NULL),
   then "\x1d" and the same engine's key listing at the end */
char *vp_meta_engine_history(const char *src, const char *ops) {
	POOL_INIT();
	DString *d = d_string_new(src);
	mmd_engine *e = mmd_engine_create_with_dstring(d, 0);
	DString *ans = d_string_new("");
	char *copy = strdup(ops), *p = copy;
	while (*p) {
		char *rec_end = strchr(p, '\x1e'); if (rec_end) *rec_end = 0;
		char *sep = strchr(p, '\x1f'); if (!sep) break; *sep = 0;
		mmd_engine_update_metavalue_for_key(e, p, sep + 1);
		char *v = mmd_engine_metavalue_for_key(e, p);
		d_string_append(ans, v ? v : "\x01"); d_string_append_c(ans, '\x1e');
		if (!rec_end) break; p = rec_end + 1;
	}
	free(copy);
	char *keys = mmd_engine_metadata_keys(e);
	DString *out = d_string_new(d->str);
	d_string_append_c(out, '\x1d'); d_string_append(out, ans->str); d_string_append_c(out, '\x1d'); if (keys) d_string_append(out, keys);
	free(keys); d_string_free(ans, true);
	mmd_engine_free(e, true);
	char *r = out->str; d_string_free(out, false);
	POOL_DRAIN();
	return r;
}
/* one engine queried repeatedly: has_metadata twice, then keys (stack must not accumulate) */
char *vp_meta_engine_requery(const char *src) {
	POOL_INIT();
	DString *d = d_string_new(src); size_t end;
	mmd_engine *e = mmd_engine_create_with_dstring(d, 0);
	mmd_engine_has_metadata(e, &end); mmd_engine_has_metadata(e, &end);
	char *keys = mmd_engine_metadata_keys(e);
	mmd_engine_has_metadata(e, &end);
	char *keys2 = mmd_engine_metadata_keys(e);
	DString *out = d_string_new(keys ? keys : ""); d_string_append_c(out, '\x1d'); d_string_append(out, keys2 ? keys2 : "");
	free(keys); free(keys2);
	mmd_engine_free(e, true);
	char *r = out->str; d_string_free(out, false);
	POOL_DRAIN();
	return r;
}
/* CriticMarkup: op 0 accept, 1 reject; range if len != (size_t)-2 */
char *vp_critic(const char *src, int op, size_t start, size_t len, int ranged) {
	POOL_INIT();
	DString *d = d_string_new(src);
	if (!ranged) { if (op) mmd_critic_markup_reject(d); else mmd_critic_markup_accept(d); }
	else { if (op) mmd_critic_markup_reject_range(d, start, len); else mmd_critic_markup_accept_range(d, start, len); }
	char *out = strdup(d->str);
	d_string_free(d, true);
	POOL_DRAIN();
	return out;
}
/* transclusion: returns transcluded text; manifest joined by \n into *manifest */
char *vp_transclude(const char *src, const char *search_path, const char *source_path, int fmt, char **manifest) {
	POOL_INIT();
	DString *d = d_string_new(src);
	stack *m = stack_new(0);
	mmd_transclude_source(d, search_path, source_path, fmt, NULL, m);
	DString *mm = d_string_new("");
	for (size_t i = 0; i < m->size; i++) { d_string_append(mm, (char *)stack_peek_index(m, i)); d_string_append_c(mm, '\n'); free(stack_peek_index(m, i)); }
	stack_free(m);
	*manifest = mm->str; d_string_free(mm, false);
	char *out = strdup(d->str); d_string_free(d, true);
	POOL_DRAIN();
	return out;
}
char *vp_manifest_fam(const char *src, const char *search_path, const char *source_path, int fam);
char *vp_manifest(const char *src, const char *search_path, const char *source_path) { return vp_manifest_fam(src, search_path, source_path, 0); }
char *vp_manifest_fam(const char *src, const char *search_path, const char *source_path, int fam) {
	POOL_INIT();
	stack *m = NULL;
	if (fam == 0) m = mmd_string_transclusion_manifest(src, search_path, source_path);
	else if (fam == 1) { DString *d = d_string_new(src); m = mmd_d_string_transclusion_manifest(d, search_path, source_path); d_string_free(d, true); }
	else { mmd_engine *e = mmd_engine_create_with_string(src, EXT_DEFAULT); m = mmd_engine_transclusion_manifest(e, search_path, source_path); mmd_engine_free(e, true); }
	DString *mm = d_string_new("");
	if (m) { for (size_t i = 0; i < m->size; i++) { d_string_append(mm, (char *)stack_peek_index(m, i)); d_string_append_c(mm, '\n'); free(stack_peek_index(m, i)); } stack_free(m); }
	char *out = mm->str; d_string_free(mm, false);
	POOL_DRAIN();
	return out;
}
char *vp_opml_to_text(const char *src) {
	POOL_INIT();
	DString *r = mmd_string_convert_opml_to_text(src);
	char *out = r ? r->str : NULL; if (r) d_string_free(r, false);
	POOL_DRAIN();
	return out;
}

/* ---- C05: histories in one process */
void vp_pool(int op) { if (op == 0) POOL_INIT(); else if (op == 1) POOL_DRAIN(); else POOL_FREE(); }
/* raw calls without pool bracketing (the caller brackets once per process, as the CLI does) */
char *vp_raw_convert(const char *src, unsigned long ext, int fmt, int lang) { char *o = NULL; srand(1); K_TRY(o = mmd_string_convert(src, ext, fmt, lang)); return k_exited ? NULL : o; }
char *vp_raw_to_data(char *src_inout, size_t cap, unsigned long ext, int fmt, int lang, const char *dir, size_t *len) {
	DString *d = d_string_new(src_inout); DString *res = NULL; char *out = NULL; *len = 0; srand(1);
	K_TRY(res = mmd_d_string_convert_to_data(d, ext, fmt, lang, dir));
	if (!k_exited && res) { out = malloc(res->currentStringLength + 1); memcpy(out, res->str, res->currentStringLength); out[res->currentStringLength] = 0; *len = res->currentStringLength; d_string_free(res, true); }
	/* hand the (possibly replaced) source back so that the caller can compare it */
	snprintf(src_inout, cap, "%s", d->str);
	use_as_caller(d, "source after convert_to_data");
	d_string_free(d, true);
	return out;
}
void *vp_engine_new(const char *src, unsigned long ext) { return mmd_engine_create_with_string(src, ext); }
char *vp_engine_convert(void *e, int fmt) { char *o = NULL; srand(1); K_TRY(o = mmd_engine_convert((mmd_engine *)e, fmt)); return k_exited ? NULL : o; }
char *vp_engine_parse_export(void *e, int fmt) {
	DString *out = d_string_new(""); srand(1);
	K_TRY({ mmd_engine_parse_string((mmd_engine *)e); mmd_engine_export_token_tree(out, (mmd_engine *)e, fmt); });
	char *r = out->str; d_string_free(out, false); return r;
}
char *vp_engine_query(void *e) { char *k = mmd_engine_metadata_keys((mmd_engine *)e); return k ? k : strdup(""); }
const char *vp_engine_source(void *e) { return ((mmd_engine *)e)->dstr->str; }
void vp_engine_free(void *e) { mmd_engine_free((mmd_engine *)e, true); }
/* an engine over a caller-owned DString (the editor use case): the caller replaces the text and converts again */
void vp_engine_set_language(void *e, int lang) { mmd_engine_set_language((mmd_engine *)e, (short)lang); }
void vp_engine_parse_range(void *e, unsigned long start, unsigned long len) { mmd_engine_parse_substring((mmd_engine *)e, start, len); }
void vp_engine_parse(void *e) { mmd_engine_parse_string((mmd_engine *)e); }
void *vp_engine_new_d(const char *src, unsigned long ext) { DString *d = d_string_new(src); return mmd_engine_create_with_dstring(d, ext); }
void vp_engine_set_text(void *e, const char *src) { DString *d = ((mmd_engine *)e)->dstr; d_string_erase(d, 0, d->currentStringLength); d_string_append(d, src); }
/* everything an engine carries from one conversion to the next (for the C05 state key) */
uint64_t vp_engine_state(void *ev) {
	mmd_engine *e = ev; uint64_t h = K_FNV0;
	h = k_fnv(&e->extensions, sizeof e->extensions, h); h = k_fnv(&e->allow_meta, sizeof e->allow_meta, h); h = k_fnv(&e->language, sizeof e->language, h); h = k_fnv(&e->quotes_lang, sizeof e->quotes_lang, h);
	h = k_fnv(&e->recurse_depth, sizeof e->recurse_depth, h); h = k_fnv(&e->random_seed_base_labels, sizeof e->random_seed_base_labels, h);
	stack *st[] = { e->abbreviation_stack, e->citation_stack, e->critic_stack, e->definition_stack, e->footnote_stack, e->glossary_stack, e->header_stack, e->link_stack, e->metadata_stack, e->table_stack };
	for (unsigned i = 0; i < sizeof st / sizeof st[0]; i++) { size_t n = st[i] ? st[i]->size : (size_t)-1; h = k_fnv(&n, sizeof n, h); }
	int has_assets = e->asset_hash != NULL, has_root = e->root != NULL; h = k_fnv(&has_assets, sizeof has_assets, h); h = k_fnv(&has_root, sizeof has_root, h);
	return h;
}
/* hash of every piece of process-global mutable state of the library (inventory: nm on the objects; see checks/c05.py) */
extern long ran_x[]; extern long ran_arr_buf[]; extern long ran_arr_dummy;
uint64_t vp_global_state(void) {
	uint64_t h = K_FNV0;
	h = k_fnv(ran_x, sizeof(long) * 100, h);
	h = k_fnv(ran_arr_buf, sizeof(long) * 1009, h);
	long off = (ran_arr_ptr == &ran_arr_dummy) ? -1 : (ran_arr_ptr == &ran_arr_started) ? -2 : (long)(ran_arr_ptr - ran_arr_buf);
	h = k_fnv(&off, sizeof off, h);
	h = k_fnv(&ran_arr_started, sizeof(long), h);
	return h;
}
uint64_t vp_hash_regions(const uint64_t *pairs, int n) {
	uint64_t h = K_FNV0;
	for (int i = 0; i < n; i++) h = k_fnv((const void *)(uintptr_t)pairs[2 * i], (size_t)pairs[2 * i + 1], h);
	return h;
}
