#include <stdio.h>
#include <stdlib.h>
#include <string.h>
#include "libMultiMarkdown.h"
#include "token.h"
#include "mmd.h"
static void dump(token*t,int d,const char*s){ for(;t;t=t->next){ printf("%*s%d [%lu,%lu) '%.*s'\n",d*2,"",t->type,t->start,t->len,(int)(t->len>20?20:t->len),s+t->start); if(t->child)dump(t->child,d+1,s);} }
int main(int c,char**v){ 
#ifdef kUseObjectPool
token_pool_init();
#endif
 mmd_engine*e=mmd_engine_create_with_string(v[1],strtoul(v[2],0,0)); mmd_engine_parse_string(e); dump(mmd_engine_root(e),0,v[1]); return 0;}
