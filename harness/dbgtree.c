/* debugging aid: dump the token tree (optionally after an export) with link consistency marks */
#include <stdio.h>
#include <stdlib.h>
#include <string.h>
#include "libMultiMarkdown.h"
#include "d_string.h"
#include "token.h"
#include "mmd.h"
static void dump(token *t, int d, const char *s) {
	token *prev = NULL;
	for (; t; t = t->next) {
		printf("%*s%d [%lu,%lu) '%.*s'%s%s\n", d * 2, "", t->type, t->start, t->len, (int)(t->len > 20 ? 20 : t->len), s + t->start,
		       (prev && t->prev != prev) ? "  <-- prev mismatch" : "", (t->mate && t->mate->mate != t) ? " <-- mate asym" : "");
		if (t->child) dump(t->child, d + 1, s);
		prev = t;
	}
}
int main(int c, char **v) {
#ifdef kUseObjectPool
	token_pool_init();
#endif
	mmd_engine *e = mmd_engine_create_with_string(v[1], strtoul(v[2], 0, 0));
	mmd_engine_parse_string(e);
	if (c > 3) { DString *o = d_string_new(""); mmd_engine_export_token_tree(o, e, atoi(v[3])); printf("%s\n----\n", o->str); }
	dump(mmd_engine_root(e), 0, v[1]);
	return 0;
}
