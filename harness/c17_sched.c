/* C17 E4: preemption-bounded schedule exploration of real pthreads converting different documents with the pool disabled.
   Scheduling points: every access to process-global mutable state (ran_start, ran_num_next, rand, srand, time, localtime),
   wrapped at link time.  One forked child per schedule (identical initial global state).  Oracle: every thread's bytes equal
   the bytes the same job gives alone in a fresh process (uuids normalised), or - for random anchors - its footnote links resolve. */
#define _GNU_SOURCE
#include <stdio.h>
#include <stdlib.h>
#include <string.h>
#include <pthread.h>
#include <signal.h>
#include <semaphore.h>
#include <unistd.h>
#include <time.h>
#include <ctype.h>
#include <sys/wait.h>
#include <sys/stat.h>
#include <stdint.h>
#include "libMultiMarkdown.h"
#include "transclude.h"
#include "d_string.h"
#define MAXT 3
#define MAXP (1 << 18)
static int NT;
static sem_t go[MAXT], back;
static volatile int finished[MAXT];
static __thread int me = -1;
static int sched_on = 0;
static int n_points; static int *chosen, *enabled_mask, *running_before;   /* allocated in main */
static volatile int running = -1; static sem_t alldone;
static volatile int used_kinds[MAXT];
static const int *prefix; static int prefix_len;
enum { K_RANSTART = 1, K_RANNEXT = 2, K_RAND = 4, K_SRAND = 8, K_TIME = 16, K_LOCALTIME = 32 };
static int K_FUNC_ON = 1;
static void pick(int from, int kind) {
	/* executed by the only running thread (or by main at the start): canonical order = running thread first if still enabled, then ascending ids */
	int mask = 0; for (int i = 0; i < NT; i++) if (!finished[i]) mask |= 1 << i;
	if (!mask) { sem_post(&alldone); return; }
	int order[MAXT], no = 0;
	if (from >= 0 && (mask >> from & 1)) order[no++] = from;
	for (int i = 0; i < NT; i++) if ((mask >> i & 1) && i != from) order[no++] = i;
	int c = n_points < prefix_len ? prefix[n_points] : 0;
	if (c >= no) { fprintf(stderr, "prefix divergence at point %d\n", n_points); _exit(3); }
	if (n_points >= MAXP) { fprintf(stderr, "too many scheduling points\n"); _exit(4); }
	enabled_mask[n_points] = mask; running_before[n_points] = (from >= 0 && (mask >> from & 1)) ? from : -1; chosen[n_points] = c; n_points++;
	int next = order[c];
	if (next == from) return;                     /* keep running: no hand-off */
	running = next; sem_post(&go[next]);
	if (from >= 0 && !finished[from]) sem_wait(&go[from]);
	(void)kind;
}
static void sched_point(int kind) { if (sched_on && me >= 0 && me == running) { used_kinds[me] |= kind; pick(me, kind); } }
__attribute__((no_instrument_function)) void __cyg_profile_func_enter(void *fn, void *site) { (void)fn; (void)site; if (K_FUNC_ON) sched_point(64); }
__attribute__((no_instrument_function)) void __cyg_profile_func_exit(void *fn, void *site) { (void)fn; (void)site; if (K_FUNC_ON) sched_point(128); }     /* a value returned through shared storage is exposed between the return and its use */
void __real_ran_start(long); void __wrap_ran_start(long s) { sched_point(K_RANSTART); __real_ran_start(s); }
long __real_ran_num_next(void); long __wrap_ran_num_next(void) { sched_point(K_RANNEXT); return __real_ran_num_next(); }
int __real_rand(void); int __wrap_rand(void) { sched_point(K_RAND); return __real_rand(); }
void __real_srand(unsigned); void __wrap_srand(unsigned s) { sched_point(K_SRAND); __real_srand(s); }
time_t __wrap_time(time_t *t) { sched_point(K_TIME); if (t) *t = 1700000000; return 1700000000; }
struct tm *__real_localtime(const time_t *); struct tm *__wrap_localtime(const time_t *t) { sched_point(K_LOCALTIME); return __real_localtime(t); }

/* so is the file system: renaming, removing */
int __real_rename(const char *, const char *); int __wrap_rename(const char *a, const char *b) { sched_point(512); int r = __real_rename(a, b); sched_point(512); return r; }
int __real_unlink(const char *); int __wrap_unlink(const char *a) { sched_point(512); return __real_unlink(a); }
int __real_remove(const char *); int __wrap_remove(const char *a) { sched_point(512); return __real_remove(a); }
/* the working directory is process-wide state too */
int __real_chdir(const char *); int __wrap_chdir(const char *p) { sched_point(256); int r = __real_chdir(p); sched_point(256); return r; }
char *__real_getcwd(char *, size_t); char *__wrap_getcwd(char *b, size_t n) { sched_point(256); return __real_getcwd(b, n); }
typedef struct { const char *name, *src; unsigned long ext; int fmt; int random; } job;
#define XD (EXT_SMART | EXT_NOTES | EXT_CRITIC)
static const job JOBS[] = {
	{ "plain", "plain *paragraph* with [link](u) and `code`\n\n# Head\n\n* a\n* b\n", XD, FORMAT_HTML, 0 },
	{ "plain-latex", "Second *plain* doc\n\n> quote\n\n1. x\n", XD, FORMAT_LATEX, 0 },
	{ "email", "mail <a@b.c> here\n", XD | EXT_OBFUSCATE, FORMAT_HTML, 0 },
	{ "email2", "<mailto:x@y.zz> text\n", XD, FORMAT_HTML, 0 },
	{ "random-foot", "a[^x] b[^y]\n\n[^x]: one\n\n[^y]: two\n", XD | EXT_RANDOM_FOOT, FORMAT_HTML, 1 },
	{ "random-foot2", "c[^p]\n\n[^p]: note\n", XD | EXT_RANDOM_FOOT, FORMAT_HTML, 1 },
	{ "epub", "Title: E\n\n# H\n\ntext\n", XD, FORMAT_EPUB, 0 },
	{ "epub-dir-a", "Title: EA\n\n# H\n\n![i](i.png) ![p](photo.jpeg) text\n", XD, FORMAT_EPUB, 0 },
	{ "epub-dir-b", "Title: EB\n\n![d](deep.gif) other\n", XD, FORMAT_EPUB, 0 },
	{ "odt-dir-a", "Title: OA\n\n![i](i.png) text\n", XD, FORMAT_ODT, 0 },
	/* transclusion itself (the CLI and editors call it before converting) */
	{ "trans-dir-a", "A {{t.txt}} and {{w.tex}} and {{t.txt}} end\n", XD, FORMAT_HTML, 0 },
	{ "trans-dir-a2", "A2 {{w.tex}} then {{t.txt}} {{missing.txt}}\n", XD, FORMAT_HTML, 0 },
	{ "trans-dir-b", "B {{t2.txt}} end\n", XD, FORMAT_HTML, 0 },
	/* results written by the library itself, two files in one folder */
	{ "tofile-a", "Title: FA\n\n# A\n\nfile *a* text\n", XD, FORMAT_HTML, 0 },
	{ "tofile-b", "file b: other `text` here\n\n* x\n", XD, FORMAT_LATEX, 0 },
	{ "tofile-c", "Title: FC\n\n![i](i.png)\n", XD, FORMAT_EPUB, 0 },
	{ "tiny-a", "# Head A\n\n[x] *t*\n\n[x]: http://u/\n", XD, FORMAT_HTML, 0 },
	{ "tiny-b", "Other B\n=======\n\n| a |\n|---|\n| b |\n[Cap]\n\nc[^n]\n\n[^n]: n\n", XD, FORMAT_LATEX, 0 },
	{ "tiny-c", "## C [lab]\n\nterm\n: def \"q\"\n", XD, FORMAT_FODT, 0 },
	/* other public entry points: the text-level CriticMarkup pass the CLI runs for -a/-r, OPML import, metadata queries */
	{ "critic-a", "a {++b++} {--c--} {~~d~>e~~}\n\n{++new\n\npara++} x\n", XD | EXT_CRITIC_ACCEPT, FORMAT_HTML, 0 },
	{ "critic-r", "f {++g++} {--h--} {==i==}{>>j<<}\n\n{--old\n\npara--} y\n", XD | EXT_CRITIC_REJECT, FORMAT_HTML, 0 },
	{ "opml-in", "<?xml version=\"1.0\"?>\n<opml version=\"1.0\"><head><title>T</title></head><body><outline text=\"H &amp; x\" _note=\"n&#10;m\"><outline text=\"S\"/></outline></body></opml>\n", XD | EXT_PARSE_OPML, FORMAT_HTML, 0 },
	{ "meta", "Title: T *x*\nAuthor: A\nlatex mode: memoir\n\nbody [%title]\n", XD | EXT_COMPLETE, FORMAT_LATEX, 0 },
	{ "raw-a", "`xa`{=latex} and `ka`{=html} text ``la``{=*}\n\n```{=latex}\nblock a\n```\n", XD, FORMAT_HTML, 0 },
	{ "raw-b", "`yb`{=epub|html} `zb`{=odt|latex|html} `wb`{=latex|odt}\n\n```{=html}\n<b>block b</b>\n```\n", XD, FORMAT_HTML, 0 },
	{ "img-a", "![a](i.png width=300px height=200px) *x* [l](u \"t\")\n", XD, FORMAT_HTML, 0 },
	{ "img-b", "![b][r] _y_ <http://q.r/>\n\n[r]: j.png width=40 height=50% class=c\n", XD, FORMAT_HTML, 0 },
	/* two kitchen sinks that differ in every value (thorough) */
	{ "sink-a", "Title: SA\nAuthor: One\nBase Header Level: 2\n\n{{TOC}}\n\n# Alpha [la]\n\n\"qa\" text[^a] [#ca] [?ga] [>aa] [Alpha][] ![ia](a.png width=10px) `ca` $ma$ {++xa++} a--b\n\n| ta | tb |\n|:--|--:|\n| 1 | 2 |\n[Cap A][ta]\n\nterm a\n: def a\n\n```c\ncode a\n```\n\n[^a]: note a\n[#ca]: Cite A\n[?ga]: gloss a\n[>aa]: Abbr A\n", XD, FORMAT_HTML, 0 },
	{ "sink-b", "Title: SB\nLanguage: fr\nHTML Header Level: 3\n\n# Beta\n\nBeta two\n--------\n\n'qb' words[^b][^c] [#cb][] [?gb] ![ib][rb] <x@y.z> ``cb`` \\\\(mb\\\\) {--xb--} c...d\n\n| u |\n|:-:|\n| 3 |\n\n> quote b\n\n1. one\n2. two\n\n[rb]: b.png height=20% \"Tb\"\n[^b]: note b\n[^c]: note c\n[#cb]: Cite B\n[?gb]: gloss b\n", XD, FORMAT_HTML, 0 },
	{ "sink-b-latex", "Title: SB\nLanguage: fr\n\n# Beta\n\n'qb' words[^b] [#cb][] [?gb] ![ib](b.png height=20%) \\\\(mb\\\\) c...d\n\n| u |\n|:-:|\n| 3 |\n\n[^b]: note b\n[#cb]: Cite B\n[?gb]: gloss b\n", XD, FORMAT_LATEX, 0 },
	{ "sink-a-fodt", "Title: SA\n\n# Alpha [la]\n\n\"qa\" text[^a] [#ca] ![ia](a.png width=10px) `ca` $ma$ a--b\n\n| ta | tb |\n|:--|--:|\n| 1 | 2 |\n[Cap A][ta]\n\n[^a]: note a\n[#ca]: Cite A\n", XD, FORMAT_FODT, 0 },
	{ "de", "Title: D\nLanguage: de\n\n\"q\" 'r' text[^n]\n\n[^n]: n\n\n{{TOC}}\n\n# H\n", XD, FORMAT_HTML, 0 },
};
#define NJOBS ((int)(sizeof JOBS / sizeof JOBS[0]))
static int tjobs[MAXT][2], ntj[MAXT];
static uint64_t outhash[MAXT][2]; static int anchors_ok[MAXT][2];

static uint64_t fnv(const void *p, size_t n) { const unsigned char *s = p; uint64_t h = 1469598103934665603ULL; while (n--) { h ^= *s++; h *= 1099511628211ULL; } return h; }
/* hash with uuids normalised; ZIP results are hashed by length only */
static uint64_t out_hash(const job *j, DString *d) {
	if (j->fmt == FORMAT_EPUB || j->fmt == FORMAT_ODT) {
		/* archives: member count and the uncompressed size of every member (from the central directory); names and compressed bytes contain uuids */
		uint64_t h = 1469598103934665603ULL; size_t n = d->currentStringLength; unsigned cnt = 0;
		for (size_t i = 0; i + 46 <= n; i++) if (!memcmp(d->str + i, "PK\x01\x02", 4)) { uint32_t us; memcpy(&us, d->str + i + 24, 4); h = (h ^ us) * 1099511628211ULL; cnt++; }
		return h ^ cnt;
	}
	return fnv(d->str, d->currentStringLength);
}
static int anchors_consistent(const char *h) {
	/* every href="#fn:N" has an id="fn:N" */
	const char *p = h;
	while ((p = strstr(p, "href=\"#fn:"))) { p += 10; char key[64]; int n = 0; while (isdigit((unsigned char)p[n]) && n < 20) n++; snprintf(key, sizeof key, "id=\"fn:%.*s\"", n, p); if (!strstr(h, key)) return 0; }
	return 1;
}
static void run_job(int t, int k) {
	const job *j = &JOBS[tjobs[t][k]];
	DString *pre = NULL; const char *src = j->src; uint64_t extra = 0;
	if (j->ext & (EXT_CRITIC_ACCEPT | EXT_CRITIC_REJECT)) { pre = d_string_new(j->src); if (j->ext & EXT_CRITIC_ACCEPT) mmd_critic_markup_accept(pre); else mmd_critic_markup_reject(pre); src = pre->str; extra = fnv(pre->str, pre->currentStringLength); }
	if (!strcmp(j->name, "meta")) { char *v = mmd_string_metavalue_for_key(j->src, "title"); char *ks = mmd_string_metadata_keys(j->src); if (v) { extra ^= fnv(v, strlen(v)); free(v); } if (ks) { extra ^= fnv(ks, strlen(ks)) * 3; free(ks); } }
	char dirbuf[600]; const char *dir = NULL, *vd = getenv("VERIF_DIR");
	if (strstr(j->name, "-dir-")) { snprintf(dirbuf, sizeof dirbuf, "%s/fixtures/assets%s", vd ? vd : "/verif", strstr(j->name, "-dir-b") ? "/sub" : ""); dir = dirbuf; }
	DString *tsrc = NULL;
	if (!strncmp(j->name, "trans-", 6)) { char sp[700]; snprintf(sp, sizeof sp, "%s/top.txt", dir); tsrc = d_string_new(j->src); mmd_transclude_source(tsrc, dir, sp, FORMAT_HTML, NULL, NULL); src = tsrc->str; extra ^= fnv(tsrc->str, tsrc->currentStringLength) * 7; }
	DString *d = NULL;
	if (!strncmp(j->name, "tofile-", 7)) {
		char folder[128], path[200]; snprintf(folder, sizeof folder, "/dev/shm/vp-c17f-%d", (int)getpid());      /* one folder per process (made before the threads start): the two jobs of a mix write side by side */ snprintf(path, sizeof path, "%s/%s.out", folder, j->name);
		mmd_string_convert_to_file(src, j->ext, j->fmt, 0, NULL, path);
		FILE *f = fopen(path, "rb"); d = d_string_new(""); if (f) { char b[4096]; size_t n; while ((n = fread(b, 1, sizeof b, f)) > 0) d_string_append_c_array(d, b, n); fclose(f); __real_unlink(path); } else d_string_append(d, "<no file written>");

		extra ^= 0x5151;
	} else
	d = mmd_string_convert_to_data(src, j->ext, j->fmt, 0, dir);
	outhash[t][k] = d ? out_hash(j, d) ^ (extra * 0x9E3779B97F4A7C15ULL) : 0;
	if (pre) d_string_free(pre, true);
	if (tsrc) d_string_free(tsrc, true);
	anchors_ok[t][k] = (j->random && d) ? anchors_consistent(d->str) : 1;
	if (d) d_string_free(d, true);
}
static void *body(void *arg) { me = (int)(intptr_t)arg; sem_wait(&go[me]); for (int k = 0; k < ntj[me]; k++) run_job(me, k); finished[me] = 1; pick(me, 0); return NULL; }

static void run_exec(void) {
	pthread_t th[MAXT]; sem_init(&alldone, 0, 0);
	for (int i = 0; i < NT; i++) { sem_init(&go[i], 0, 0); finished[i] = 0; pthread_create(&th[i], NULL, body, (void *)(intptr_t)i); }
	sched_on = 1; n_points = 0; running = -1;
	pick(-1, 0);
	sem_wait(&alldone);
	for (int i = 0; i < NT; i++) pthread_join(th[i], NULL);
}
typedef struct { int n; uint64_t out[MAXT][2]; int anch[MAXT][2]; int kinds[MAXT]; int *ch, *mask, *run; } result;
static int wr(int fd, const void *p, size_t n) { size_t off = 0; while (off < n) { ssize_t k = write(fd, (const char *)p + off, n - off); if (k <= 0) return 0; off += k; } return 1; }
static int rd(int fd, void *p, size_t n) { size_t off = 0; while (off < n) { ssize_t k = read(fd, (char *)p + off, n - off); if (k <= 0) return 0; off += k; } return 1; }
static int exec_child(const int *pre, int plen, result *res) {
	int fd[2]; if (pipe(fd)) return 0; fflush(stdout);
	pid_t p = fork();
	if (!p) {
		close(fd[0]); prefix = pre; prefix_len = plen; alarm(120);
		char folder[128]; snprintf(folder, sizeof folder, "/dev/shm/vp-c17f-%d", (int)getpid()); mkdir(folder, 0700);
		run_exec();
		rmdir(folder);
		result r; memset(&r, 0, sizeof r); r.n = n_points; memcpy(r.out, outhash, sizeof outhash); memcpy(r.anch, anchors_ok, sizeof anchors_ok); for (int i = 0; i < MAXT; i++) r.kinds[i] = used_kinds[i];
		wr(fd[1], &r, sizeof r); wr(fd[1], chosen, sizeof(int) * n_points); wr(fd[1], enabled_mask, sizeof(int) * n_points); wr(fd[1], running_before, sizeof(int) * n_points);
		_exit(0);
	}
	close(fd[1]); int ok = rd(fd[0], res, sizeof *res);
	if (ok) { res->ch = malloc(sizeof(int) * (res->n + 1)); res->mask = malloc(sizeof(int) * (res->n + 1)); res->run = malloc(sizeof(int) * (res->n + 1));
		ok = rd(fd[0], res->ch, sizeof(int) * res->n) && rd(fd[0], res->mask, sizeof(int) * res->n) && rd(fd[0], res->run, sizeof(int) * res->n); }
	close(fd[0]); int st; waitpid(p, &st, 0);
	return ok && WIFEXITED(st) && WEXITSTATUS(st) == 0 ? 1 : -(WIFEXITED(st) ? WEXITSTATUS(st) : 100 + WTERMSIG(st));
}
static uint64_t serial[NJOBS]; static long execs, viols, distinct_outcomes; static int bound; static uint64_t seen_out[4096]; static int nseen;
static double deadline; static int timed_out;
static double now(void) { struct timespec ts; clock_gettime(CLOCK_MONOTONIC, &ts); return ts.tv_sec + ts.tv_nsec / 1e9; }
static const char *mixname;
static void report(const result *r, int t, int k, const char *what) {
	const job *j = &JOBS[tjobs[t][k]]; int pc = 0;
	for (int i = 0; i < r->n; i++) if (r->ch[i] > 0 && r->run[i] >= 0 && (r->mask[i] >> r->run[i] & 1)) pc++;
	const char *cause = (r->kinds[t] & 512) ? "file-system" : (r->kinds[t] & 256) ? "working-directory" : (r->kinds[t] & (K_RANNEXT)) ? "knuth-generator" : (r->kinds[t] & (K_RAND | K_SRAND)) ? "libc-rand" : "other-shared-state";
	printf("{\"t\":\"viol\",\"sig\":\"sched:%s:%s\",\"detail\":\"thread %d job %s: %s in a schedule with %d preemption(s)\",\"mix\":\"%s\",\"preemptions\":%d,\"points\":%d,\"schedule\":[", what, cause, t, j->name, what, pc, mixname, pc, r->n);
	{ int first = 1; for (int i = 0; i < r->n; i++) if (r->ch[i]) { printf("%s[%d,%d]", first ? "" : ",", i, r->ch[i]); first = 0; } }
	printf("]}\n");
}
static void explore(int *pre, int plen) {
	if (timed_out) return;
	if (now() > deadline) { timed_out = 1; return; }
	result *res = malloc(sizeof *res);
	memset(res, 0, sizeof *res);
	int rc = exec_child(pre, plen, res);
	if (rc == -(100 + SIGALRM)) { viols++; printf("{\"t\":\"viol\",\"sig\":\"sched:hang-or-deadlock\",\"detail\":\"a schedule of mix %s did not finish within 120 s\",\"mix\":\"%s\",\"preemptions\":%d,\"points\":0,\"schedule\":[]}\n", mixname, mixname, bound); free(res); return; }
	if (rc != 1) { printf("{\"t\":\"internal\",\"what\":\"schedule child failed (%d) in mix %s\"}\n", rc, mixname); free(res); return; }
	execs++;
	uint64_t oh = fnv(res->out, sizeof res->out); int f = 0; for (int i = 0; i < nseen; i++) if (seen_out[i] == oh) f = 1; if (!f && nseen < 4096) seen_out[nseen++] = oh;
	for (int t = 0; t < NT; t++) for (int k = 0; k < ntj[t]; k++) {
		const job *j = &JOBS[tjobs[t][k]];
		if (j->random) { if (!res->anch[t][k]) { viols++; if (viols <= 3) report(res, t, k, "anchors-inconsistent"); } }
		else if (res->out[t][k] != serial[tjobs[t][k]]) { viols++; if (viols <= 3) report(res, t, k, "output-differs-from-serial"); }
	}
	int cost = 0;
	for (int i = 0; i < res->n; i++) {
		int stillen = res->run[i] >= 0 && (res->mask[i] >> res->run[i] & 1);
		if (i >= plen) {
			int nen = __builtin_popcount(res->mask[i]);
			for (int alt = 1; alt < nen; alt++) {
				int c2 = cost + (stillen ? 1 : 0); if (c2 > bound) continue;
				int *np = malloc(sizeof(int) * (i + 1)); memcpy(np, res->ch, sizeof(int) * i); np[i] = alt; explore(np, i + 1); free(np);
			}
		}
		if (res->ch[i] > 0 && stillen) cost++;
	}
	free(res);
}
int main(int argc, char **argv) {
	/* usage: c17_sched <max preemptions> <deadline s> <mix>...   mix = job[+job]|job[+job][|job]  (thread bodies separated by '|') */
	int maxb = atoi(argv[1]); double dl = atof(argv[2]); deadline = now() + dl;
	chosen = malloc(sizeof(int) * MAXP); enabled_mask = malloc(sizeof(int) * MAXP); running_before = malloc(sizeof(int) * MAXP);
	for (int j = 0; j < NJOBS; j++) {      /* serial, fresh-process reference */
		int fd[2]; if (pipe(fd)) return 3;
		if (!fork()) { NT = 1; tjobs[0][0] = j; ntj[0] = 1; char folder[128]; snprintf(folder, sizeof folder, "/dev/shm/vp-c17f-%d", (int)getpid()); mkdir(folder, 0700); run_job(0, 0); rmdir(folder); if (write(fd[1], &outhash[0][0], 8) != 8) _exit(3); _exit(0); }
		if (read(fd[0], &serial[j], 8) != 8) return 3; wait(NULL); close(fd[0]); close(fd[1]);
	}
	for (int a = 3; a < argc; a++) {
		mixname = argv[a]; char *copy = strdup(argv[a]); NT = 0; memset(ntj, 0, sizeof ntj);
		for (char *th = strtok(copy, "|"); th && NT < MAXT; th = strtok(NULL, "|")) {
			char *save; char *t2 = strdup(th);
			for (char *jn = strtok_r(t2, "+", &save); jn && ntj[NT] < 2; jn = strtok_r(NULL, "+", &save)) { int k; for (k = 0; k < NJOBS; k++) if (!strcmp(JOBS[k].name, jn)) break; if (k == NJOBS) { fprintf(stderr, "no job %s\n", jn); return 3; } tjobs[NT][ntj[NT]++] = k; }
			NT++;
		}
		for (int b = 0; b <= maxb && !timed_out; b++) {
			bound = b; execs = viols = 0; nseen = 0; double t0 = now();
			explore(NULL, 0);
			printf("{\"t\":\"bound\",\"mix\":\"%s\",\"threads\":%d,\"preemption_bound\":%d,\"schedules\":%ld,\"violating_schedules\":%ld,\"distinct_outcomes\":%d,\"complete\":%s,\"wall\":%.2f}\n", mixname, NT, b, execs, viols, nseen, timed_out ? "false" : "true", now() - t0);
			fflush(stdout);
		}
	}
	return 0;
}
