/* C15 the exposed token tree is structurally sound and stays inside the source.
   Checked after mmd_engine_parse_string, after mmd_engine_parse_substring on every line-aligned range,
   and again after each export (writers mutate the tree). */
#include "space.h"
#include "parser.h"
#include "token_pairs.h"
#include "toknames.h"
static k_alpha *A_inline, *A_lines, *A_pre, *A_post, *A_macro; static char docbuf[1 << 17];

static long budget; static const char *fail; static char faildet[256]; static char failsig[96]; static size_t srclen; static long n_tokens, n_firstprev, n_tailstale;
static void chain(token *first, int depth, int parent_type) {
	token *prev = NULL;
	for (token *t = first; t && !fail; t = t->next) {
		if (--budget < 0) { fail = "tree-not-finite"; return; }
		n_tokens++;
		if (t == first && t->prev) n_firstprev++;
		if (prev && t->prev != prev) { fail = failsig; snprintf(failsig, sizeof failsig, "sibling-links-inconsistent:%s-after-%s-in-%s", vp_tokname(t->type), vp_tokname(prev->type), vp_tokname(parent_type)); snprintf(faildet, sizeof faildet, "token type %d at %lu: prev does not point at the preceding sibling (type %d at %lu)", t->type, (unsigned long)t->start, prev->type, (unsigned long)prev->start); return; }
		if (t->start > srclen || t->len > srclen || t->start + t->len > srclen) { fail = failsig; snprintf(failsig, sizeof failsig, "span-outside-source:%s-in-%s", vp_tokname(t->type), vp_tokname(parent_type)); snprintf(faildet, sizeof faildet, "token type %d [%lu,+%lu) source length %lu", t->type, (unsigned long)t->start, (unsigned long)t->len, (unsigned long)srclen); return; }
		if (prev && t->start < prev->start) { fail = failsig; snprintf(failsig, sizeof failsig, "siblings-out-of-order:%s-after-%s-in-%s", vp_tokname(t->type), vp_tokname(prev->type), vp_tokname(parent_type)); snprintf(faildet, sizeof faildet, "token type %d at %lu follows type %d at %lu", t->type, (unsigned long)t->start, prev->type, (unsigned long)prev->start); return; }
		if (t->mate && t->mate->mate != t) { fail = failsig; snprintf(failsig, sizeof failsig, "mate-asymmetric:%s-mate-%s", vp_tokname(t->type), vp_tokname(t->mate->type)); snprintf(faildet, sizeof faildet, "token type %d at %lu: mate type %d at %lu does not point back", t->type, (unsigned long)t->start, t->mate->type, (unsigned long)t->mate->start); return; }
		if (t->child) { if (depth > 4000) { fail = "tree-not-finite"; return; } chain(t->child, depth + 1, t->type); }
		if (!t->next && first->tail != t) n_tailstale++;
		prev = t;
	}
}
static const char *tree_check(token *root, size_t len, int want_root_span, size_t span_start, size_t span_len) {
	fail = NULL; faildet[0] = 0; budget = 200000 + 64 * (long)len; srclen = len;
	if (!root) return NULL;
	if (want_root_span) {
		if (root->type != DOC_START_TOKEN) { snprintf(faildet, sizeof faildet, "root type %d", root->type); return "root-not-doc-start"; }
		if (root->start != span_start || root->len != span_len) { snprintf(faildet, sizeof faildet, "root spans [%lu,+%lu), expected [%lu,+%lu)", (unsigned long)root->start, (unsigned long)root->len, (unsigned long)span_start, (unsigned long)span_len); return "root-span"; }
		if (root->next || root->prev) return "root-has-siblings";
	}
	chain(root, 0, -1);
	return fail;
}
static void report(const char *stage, const char *f, int fmt) {
	char sig[128];
	if (fmt >= 0) snprintf(sig, sizeof sig, "tree:%s:after-export-%s", f, FORMAT_NAMES[fmt]); else snprintf(sig, sizeof sig, "tree:%s:%s", f, stage);
	k_violation(sig, "%s: %s", stage, faildet);
}
static const short EXPORTS[6] = { FORMAT_HTML, FORMAT_LATEX, FORMAT_FODT, FORMAT_OPML, FORMAT_BEAMER, FORMAT_MMD };
static void tree_case(const char *doc, size_t n, unsigned long ext, int do_sub) {
	POOL_INIT();
	mmd_engine *e = mmd_engine_create_with_string(doc, ext);
	uint64_t h = K_FNV0;
	K_TRY({
		const char *f = NULL;
		for (int x = 0; x < 6 && !f; x++) {
			/* parse + export is what mmd_engine_convert does; a parse is exported once (definitions are consumed) */
			mmd_engine_parse_string(e);
			f = tree_check(mmd_engine_root(e), n, 1, 0, n);
			h = k_fnv(&n_tokens, sizeof n_tokens, h);
			if (f) { report("after parse_string", f, -1); break; }
			DString *out = d_string_new(""); srand(1);
			mmd_engine_export_token_tree(out, e, EXPORTS[x]);
			h = k_fnv(out->str, out->currentStringLength, h);
			d_string_free(out, true);
			f = tree_check(mmd_engine_root(e), n, 0, 0, 0);
			if (f) { report("after export", f, EXPORTS[x]); break; }
		}
		if (do_sub && !f) {
			/* every line-aligned sub-range */
			size_t ls[16]; int nl = 0; ls[nl++] = 0;
			for (size_t i = 0; i < n && nl < 15; i++) if (doc[i] == '\n' && i + 1 < n) ls[nl++] = i + 1;
			ls[nl] = n;
			for (int a = 0; a < nl && !f; a++) for (int b = a + 1; b <= nl && !f; b++) {
				if (a == 0 && b == nl) continue;
				token *r = mmd_engine_parse_substring(e, ls[a], ls[b] - ls[a]);
				f = tree_check(r, n, 1, ls[a], ls[b] - ls[a]);
				if (f) { char st[64]; snprintf(st, sizeof st, "after parse_substring(%lu,%lu)", (unsigned long)ls[a], (unsigned long)(ls[b] - ls[a])); report("parse_substring", f, -1); (void)st; }
			}
		}
	});
	if (!k_exited) mmd_engine_free(e, true);
	k_outcome(h);
	k_note("aux1", n_firstprev); k_note("aux2", n_tailstale); n_firstprev = n_tailstale = 0; n_tokens = 0;
	POOL_DRAIN();
}
static space SP[6];
static int SUB[6] = { 1, 0, 0, 1, 0, 0 };
static void sp_run(int k, uint64_t idx) { space_pt p = space_decode(&SP[k], idx); size_t n = space_doc(&SP[k], &p, docbuf, sizeof docbuf); tree_case(docbuf, n, p.ext, SUB[k]); }
#define SPFN(k) static void run##k(uint64_t i) { sp_run(k, i); } static void desc##k(uint64_t i, FILE *o) { space_desc(&SP[k], i, o); }
SPFN(0) SPFN(1) SPFN(2) SPFN(3) SPFN(4) SPFN(5)
static const int CTX8[8] = { 0, 1, 2, 3, 4, 5, 6, 7 };
static const short F1[1] = { FORMAT_HTML };
static const unsigned long EX3[3] = { EXT_DEFAULT, EXT_COMPAT_SET, EXT_DEFAULT | EXT_CRITIC_ACCEPT | EXT_PROCESS_HTML };

/* compile-time relations between the published enum ranges and the tables that assume them */
#define REL(c) do { if (!(c)) { k_violation("enum-relation", "%s does not hold", #c); } else k_note("judged", 1); } while (0)
static void run_rel(uint64_t i) {
	(void)i;
	REL(kMaxTokenTypes > OBJECT_REPLACEMENT_CHARACTER);
	REL(BLOCK_BLOCKQUOTE > LINE_START_COMMENT); REL(BLOCK_BLOCKQUOTE > LINE_EMPTY); REL(BLOCK_BLOCKQUOTE > LINE_STOP_COMMENT); REL(BLOCK_BLOCKQUOTE > LINE_FENCE_BACKTICK_START_5);
	REL(DOC_START_TOKEN == 0);
	REL(PAIR_CRITIC_HI < kMaxTokenTypes); REL(CRITIC_HI_CLOSE < kMaxTokenTypes);
	REL(BLOCK_H2 == BLOCK_H1 + 1 && BLOCK_H3 == BLOCK_H1 + 2 && BLOCK_H4 == BLOCK_H1 + 3 && BLOCK_H5 == BLOCK_H1 + 4 && BLOCK_H6 == BLOCK_H1 + 5);
	REL(HASH2 == HASH1 + 1 && HASH3 == HASH1 + 2 && HASH4 == HASH1 + 3 && HASH5 == HASH1 + 4 && HASH6 == HASH1 + 5);
	REL(MARKER_H2 == MARKER_H1 + 1 && MARKER_H3 == MARKER_H1 + 2 && MARKER_H4 == MARKER_H1 + 3 && MARKER_H5 == MARKER_H1 + 4 && MARKER_H6 == MARKER_H1 + 5);
	REL(LINE_ATX_2 == LINE_ATX_1 + 1 && LINE_ATX_6 == LINE_ATX_1 + 5);
	REL(BLOCK_SETEXT_2 == BLOCK_SETEXT_1 + 1);
	k_outcome(1); k_outcome(2);
}
static void desc_rel(uint64_t i, FILE *o) { (void)i; fprintf(o, "\"relations\":\"kMaxTokenTypes > largest token type; BLOCK_BLOCKQUOTE > largest parser.h terminal; H1..H6, HASH1..6, MARKER_H1..6, LINE_ATX_1..6 contiguous\""); }

int main(int argc, char **argv) {
	A_inline = k_alpha_load("inline"); A_lines = k_alpha_load("lines"); A_pre = k_alpha_load("ctx_pre"); A_post = k_alpha_load("ctx_post"); A_macro = k_alpha_load("macro");
	SP[0] = (space){ .a = A_lines, .minlen = 1, .maxlen = 2, .fmts = F1, .nfmt = 1, .exts = EX3, .next = 3 };
	SP[1] = (space){ .a = A_inline, .minlen = 1, .maxlen = 2, .pre = A_pre, .post = A_post, .ctxs = CTX8, .nctx = 8, .fmts = F1, .nfmt = 1, .exts = EX3, .next = 3 };
	SP[2] = (space){ .a = A_macro, .minlen = 1, .maxlen = 1, .fmts = F1, .nfmt = 1, .exts = EXTSETS, .next = 8 };
	SP[3] = (space){ .a = A_lines, .minlen = 3, .maxlen = 3, .fmts = F1, .nfmt = 1, .exts = EX3, .next = 3 };
	SP[4] = (space){ .a = A_inline, .minlen = 3, .maxlen = 3, .pre = A_pre, .post = A_post, .ctxs = CTX8, .nctx = 4, .fmts = F1, .nfmt = 1, .exts = EX3, .next = 2 };
	SP[5] = (space){ .a = k_alpha_sub(A_lines, 0, 36), .minlen = 4, .maxlen = 4, .fmts = F1, .nfmt = 1, .exts = EX3, .next = 2 };
	k_level L[] = {
		{ "enum_relations", 1, run_rel, desc_rel, "qt", "relations between the enum ranges of libMultiMarkdown.h / parser.h / token_pairs.h, evaluated against the current headers" },
		{ "q_lines2", space_count(&SP[0]), run0, desc0, "qt", "line sequences len<=2 x 3 extension sets: parse, 6 exports, every line-aligned parse_substring" },
		{ "q_inline2", space_count(&SP[1]), run1, desc1, "qt", "inline sequences len<=2 x 8 contexts x 3 extension sets: parse + 6 exports" },
		{ "q_macro", space_count(&SP[2]), run2, desc2, "qt", "macro fragments x 8 extension sets" },
		{ "t_lines3", space_count(&SP[3]), run3, desc3, "t", "line sequences len 3 x 3 extension sets incl. every line-aligned parse_substring" },
		{ "t_inline3", space_count(&SP[4]), run4, desc4, "t", "inline sequences len 3 x 4 contexts x 2 extension sets" },
		{ "t_lines4core", space_count(&SP[5]), run5, desc5, "t", "one-per-kind lines len 4 x 2 extension sets" },
	};
	return k_main(argc, argv, L, sizeof L / sizeof L[0]);
}
