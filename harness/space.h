/* Document spaces: ctx.pre + f1..fL + ctx.post  x formats x extension sets x languages */
#ifndef VP_SPACE_H
#define VP_SPACE_H
#include "common.h"

typedef struct {
	k_alpha *a; int minlen, maxlen;
	k_alpha *pre, *post; const int *ctxs; int nctx;        /* ctxs: indices into pre/post (NULL = bare) */
	const short *fmts; int nfmt;
	const unsigned long *exts; int next;
	int nlang;
	uint64_t nseq;
} space;

static inline uint64_t space_count(space *s) {
	s->nseq = k_seq_count(s->a->n, s->minlen, s->maxlen);
	if (!s->nctx) s->nctx = 1;
	if (!s->nlang) s->nlang = 1;
	return s->nseq * s->nctx * s->nfmt * s->next * s->nlang;
}
typedef struct { uint64_t seq; int ctx, fmt, lang; unsigned long ext; } space_pt;
static inline space_pt space_decode(const space *s, uint64_t idx) {
	space_pt p;
	p.lang = (int)(idx % s->nlang); idx /= s->nlang;
	p.ext = s->exts[idx % s->next]; idx /= s->next;
	p.fmt = s->fmts[idx % s->nfmt]; idx /= s->nfmt;
	p.ctx = s->ctxs ? s->ctxs[idx % s->nctx] : -1; idx /= s->nctx;
	p.seq = idx;
	return p;
}
static inline size_t space_doc(const space *s, const space_pt *p, char *buf, size_t cap) {
	int d[16]; int L = k_seq_decode(p->seq, s->a->n, s->minlen, s->maxlen, d);
	size_t n = 0;
	if (p->ctx >= 0 && s->pre) { k_frag *f = &s->pre->f[p->ctx]; if (n + f->n < cap) { memcpy(buf + n, f->s, f->n); n += f->n; } }
	for (int i = 0; i < L; i++) { k_frag *f = &s->a->f[d[i]]; if (n + f->n < cap) { memcpy(buf + n, f->s, f->n); n += f->n; } }
	if (p->ctx >= 0 && s->post) { k_frag *f = &s->post->f[p->ctx]; if (n + f->n < cap) { memcpy(buf + n, f->s, f->n); n += f->n; } }
	buf[n] = 0;
	return n;
}
static inline void space_desc(const space *s, uint64_t idx, FILE *o) {
	static char buf[1 << 16];
	space_pt p = space_decode(s, idx);
	size_t n = space_doc(s, &p, buf, sizeof buf);
	k_json_bytes(o, "src", buf, n > 600 ? 600 : n);
	fprintf(o, ",\"src_len\":%lu,\"ctx\":%d,", (unsigned long)n, p.ctx);
	json_cfg(o, p.fmt, p.ext, p.lang);
}
static const short ALL_FORMATS[NFORMATS] = { 0, 1, 2, 3, 4, 5, 6, 7, 8, 9, 10, 11, 12 };
#endif
