/* C02 layers A+B.
   A: complete reachability over LALR stack configurations of the block parser, on the tables of the
      repository's own parser.c (included below with its entry points renamed).
   B: conformance: every configuration's shortest witness, and every transition out of it, is replayed
      against the real Parse() in parser.o with real line tokens; the real state stack must equal the
      simulated one after every token and the real parser must not report a syntax error / failure. */
#define _GNU_SOURCE
#define ParseAlloc SIM_ParseAlloc
#define Parse SIM_Parse
#define ParseFree SIM_ParseFree
#define ParseTrace SIM_ParseTrace
#define ParseInit SIM_ParseInit
#define ParseFinalize SIM_ParseFinalize
#define ParseFallback SIM_ParseFallback
#define ParseStackPeak SIM_ParseStackPeak
#undef NDEBUG
#include "parser.c"
#undef Parse
#undef ParseAlloc
#undef ParseFree
#include <string.h>
#include <unistd.h>
#include <fcntl.h>
#include <sys/mman.h>
#include "d_string.h"

token *mmd_tokenize_string(mmd_engine *e, size_t start, size_t len, bool stop_on_empty_line);
void *ParseAlloc(void *(*mallocProc)(size_t));
void Parse(void *yyp, int yymajor, token *yyminor, mmd_engine *engine);
void ParseFree(void *p, void (*freeProc)(void *));

/* representative line per terminal NAME (numbers are read from the tables at run time) */
static const struct { const char *name, *line; } REP[] = {
	{ "LINE_HR", "* * *\n" }, { "LINE_SETEXT_1", "===\n" }, { "LINE_SETEXT_2", "---\n" }, { "LINE_YAML", "---\n" },
	{ "LINE_PLAIN", "plain text\n" }, { "LINE_INDENTED_TAB", "\tTabbed\n" }, { "LINE_INDENTED_SPACE", "    indented\n" },
	{ "LINE_TABLE", "a | b\n" }, { "LINE_TABLE_SEPARATOR", "|--|:-:|\n" }, { "LINE_HTML", "<div>\n" },
	{ "LINE_ATX_1", "# H1\n" }, { "LINE_ATX_2", "## H2 ##\n" }, { "LINE_ATX_3", "### H3\n" }, { "LINE_ATX_4", "#### H4\n" },
	{ "LINE_ATX_5", "##### H5\n" }, { "LINE_ATX_6", "###### H6\n" }, { "LINE_BLOCKQUOTE", "> quote\n" },
	{ "LINE_LIST_BULLETED", "* bullet\n" }, { "LINE_LIST_ENUMERATED", "1. enum\n" }, { "LINE_DEF_ABBREVIATION", "[>a]: abbr\n" },
	{ "LINE_DEF_CITATION", "[#c]: cite\n" }, { "LINE_DEF_FOOTNOTE", "[^f]: foot\n" }, { "LINE_DEF_GLOSSARY", "[?g]: gloss\n" },
	{ "LINE_DEF_LINK", "[l]: http://x.y\n" }, { "LINE_TOC", "{{TOC}}\n" }, { "LINE_DEFINITION", ": def\n" }, { "LINE_META", "Key: value\n" },
	{ "LINE_FENCE_BACKTICK_3", "```\n" }, { "LINE_FENCE_BACKTICK_4", "````\n" }, { "LINE_FENCE_BACKTICK_5", "`````\n" },
	{ "LINE_FENCE_BACKTICK_START_3", "``` lang\n" }, { "LINE_FENCE_BACKTICK_START_4", "```` lang\n" }, { "LINE_FENCE_BACKTICK_START_5", "````` lang\n" },
	{ "LINE_STOP_COMMENT", "-->\n" }, { "LINE_EMPTY", "\n" }, { "LINE_START_COMMENT", "<!--\n" },
};
#define NREP (sizeof REP / sizeof REP[0])
static const char *PSEUDO[] = { "LINE_CONTINUATION", "LINE_FALLBACK", "LINE_BACKTICK" };
#define NFALLBACK ((int)(sizeof(yyFallback) / sizeof(yyFallback[0])))
static int NTERM;   /* terminals incl. $ at 0: entries of yyTokenName before "error" */

#define MAXD 100
typedef struct { int n; unsigned short s[MAXD]; } cfg;

static unsigned find_shift(int stateno, int la) {
	if (stateno > YY_MAX_SHIFT) return stateno;
	for (;;) {
		int i = yy_shift_ofst[stateno]; i += la;
		if (i < 0 || i >= YY_ACTTAB_COUNT || yy_lookahead[i] != la) {
			int fb;
			if (la < NFALLBACK && (fb = yyFallback[la]) != 0) { la = fb; continue; }
			return yy_default[stateno];
		}
		return yy_action[i];
	}
}
/* 0 shifted, 1 syntax error, 2 accept, 3 overflow */
static int feed(cfg *c, int tok) {
	for (;;) {
		unsigned act = find_shift(c->s[c->n - 1], tok);
		if (act <= YY_MAX_SHIFTREDUCE) {
			if (c->n >= MAXD) return 3;
			if (act > YY_MAX_SHIFT) act += YY_MIN_REDUCE - YY_MIN_SHIFTREDUCE;
			c->s[c->n++] = act; return 0;
		} else if (act >= YY_MIN_REDUCE && act <= YY_MAX_REDUCE) {
			int r = act - YY_MIN_REDUCE; int lhs = yyRuleInfo[r].lhs, sz = -yyRuleInfo[r].nrhs;
			if (sz < 0) sz = yyRuleInfo[r].nrhs;     /* lemon versions store nrhs negated or not */
			if (sz == 0 && c->n >= MAXD - 1) return 3;
			int base = c->s[c->n - 1 - sz]; int a = yy_find_reduce_action(base, lhs);
			if (a == YY_ACCEPT_ACTION) { c->n -= sz; return 2; }
			if (a > YY_MAX_SHIFT && a <= YY_MAX_SHIFTREDUCE) a += YY_MIN_REDUCE - YY_MIN_SHIFTREDUCE;
			c->n -= sz; c->s[c->n++] = a;
		} else if (act == YY_ACCEPT_ACTION) { return 2; }
		else return 1;
	}
}

#define MAXC 400000
static cfg *Q; static int nq; static int *parent, *via;
#define HSZ (1 << 20)
static int *hashtab;
static unsigned hcfg(const cfg *c) { unsigned h = 2166136261u; for (int i = 0; i < c->n; i++) { h ^= c->s[i]; h *= 16777619u; } return h; }
static int find_or_add(const cfg *c, int par, int tok) {
	unsigned h = hcfg(c) & (HSZ - 1);
	while (hashtab[h] >= 0) { cfg *q = &Q[hashtab[h]]; if (q->n == c->n && !memcmp(q->s, c->s, c->n * 2)) return -1; h = (h + 1) & (HSZ - 1); }
	if (nq >= MAXC) return -2;
	hashtab[h] = nq; Q[nq] = *c; parent[nq] = par; via[nq] = tok; return nq++;
}

static int is_pseudo(int t) { for (unsigned i = 0; i < 3; i++) if (!strcmp(yyTokenName[t], PSEUDO[i])) return 1; return 0; }
static const char *rep_line(int t) { for (unsigned i = 0; i < NREP; i++) if (!strcmp(yyTokenName[t], REP[i].name)) return REP[i].line; return NULL; }

static int witness(int c, int *out) { int n = 0; for (int p = c; p > 0; p = parent[p]) out[n++] = via[p]; for (int i = 0; i < n / 2; i++) { int t = out[i]; out[i] = out[n - 1 - i]; out[n - 1 - i] = t; } return n; }
static void print_path(FILE *o, const int *w, int n) { fputc('[', o); for (int i = 0; i < n; i++) fprintf(o, "%s\"%s\"", i ? "," : "", yyTokenName[w[i]]); fputc(']', o); }

/* ---- conformance against the real parser */
static int real_stack(void *p, unsigned short *out) {
	yyParser *yp = (yyParser *)p; int n = 0;
	for (yyStackEntry *e = yp->yystack; e <= yp->yytos; e++) out[n++] = e->stateno;
	return n;
}
static long stderr_size(void) { off_t e = lseek(2, 0, SEEK_END); return e < 0 ? 0 : (long)e; }

/* replay kinds w[0..n) (+ optionally EOF) on the real parser; compare stacks after every token.
   returns 0 ok, else writes a reason */
static int conform(const int *w, int n, int with_eof, char *why, size_t whycap) {
	DString *src = d_string_new("");
	size_t off[64];
	for (int i = 0; i < n; i++) { off[i] = src->currentStringLength; d_string_append(src, rep_line(w[i])); }
	off[n] = src->currentStringLength;
	mmd_engine *e = mmd_engine_create_with_dstring(src, EXT_NOTES | EXT_CRITIC | EXT_SMART);
	void *p = ParseAlloc(malloc);
	cfg sim; sim.n = 1; sim.s[0] = 0;
	int rc = 0; long e0 = stderr_size();
	e->root = NULL;
	for (int i = 0; i < n && !rc; i++) {
		token *doc = mmd_tokenize_string(e, off[i], off[i + 1] - off[i], false);
		token *line = doc ? doc->child : NULL;
		if (!line) { snprintf(why, whycap, "no line token for %s", yyTokenName[w[i]]); rc = 3; break; }
		doc->child = NULL; line->next = NULL; line->prev = NULL; line->tail = line;
		line->type = w[i];
		int r = feed(&sim, w[i]);
		Parse(p, w[i], line, e);
		unsigned short rs[MAXD + 2]; int rn = real_stack(p, rs);
		if (r != 0) { snprintf(why, whycap, "simulator result %d at token %d", r, i); rc = 2; }
		else if (rn != sim.n || memcmp(rs, sim.s, rn * 2)) { snprintf(why, whycap, "stack mismatch after token %d (%s): real depth %d, simulated depth %d", i, yyTokenName[w[i]], rn, sim.n); rc = 1; }
		else if (stderr_size() != e0) { snprintf(why, whycap, "real parser wrote to stderr after token %d (%s)", i, yyTokenName[w[i]]); rc = 1; }
	}
	if (!rc && with_eof) {
		int r = feed(&sim, 0);
		Parse(p, 0, NULL, e);
		if (r != 2) { snprintf(why, whycap, "simulator does not accept at EOF (%d)", r); rc = 2; }
		else if (stderr_size() != e0) { snprintf(why, whycap, "real parser wrote to stderr at EOF"); rc = 1; }
		else if (e->root == NULL) { snprintf(why, whycap, "real parser produced no root at EOF"); rc = 1; }
	}
	ParseFree(p, free);
	/* the tree is deliberately leaked: nested parses may have re-linked tokens */
	e->root = NULL;
	mmd_engine_free(e, true);
	return rc;
}

int main(int argc, char **argv) {
	int do_conform = 1, feed_pseudo = 0;
	for (int i = 1; i < argc; i++) { if (!strcmp(argv[i], "--no-conform")) do_conform = 0; if (!strcmp(argv[i], "--pseudo")) feed_pseudo = 1; }
	int efd = memfd_create("stderr", 0); int real_err = dup(2); dup2(efd, 2);
	FILE *out = stdout;
#ifdef kUseObjectPool
	token_pool_init();
#endif
	Q = malloc(sizeof(cfg) * MAXC); parent = malloc(sizeof(int) * MAXC); via = malloc(sizeof(int) * MAXC);
	hashtab = malloc(sizeof(int) * HSZ); memset(hashtab, -1, sizeof(int) * HSZ);
	/* terminal inventory */
	for (NTERM = 1; strcmp(yyTokenName[NTERM], "error"); NTERM++) {}
	int terms[128], nt = 0, missing = 0;
	for (int t = 1; t < NTERM; t++) {
		if (is_pseudo(t) && !feed_pseudo) continue;
		if (!is_pseudo(t) && !rep_line(t)) { fprintf(out, "{\"t\":\"internal\",\"what\":\"terminal %s has no representative line\"}\n", yyTokenName[t]); missing++; continue; }
		terms[nt++] = t;
	}
	if (missing) return 3;
	cfg c0; c0.n = 1; c0.s[0] = 0; find_or_add(&c0, -1, 0);
	long trans = 0, errs = 0, eoferr = 0, overflow = 0; int maxd = 1;
	for (int h = 0; h < nq; h++) {
		if (h > 0) {
			cfg e = Q[h]; int r = feed(&e, 0); trans++;
			if (r != 2) {
				eoferr++;
				if (eoferr <= 20) { int w[MAXD * 4]; int n = witness(h, w); fprintf(out, "{\"t\":\"lalr_error\",\"kind\":\"eof-not-accepted\",\"result\":%d,\"path\":", r); print_path(out, w, n); fprintf(out, "}\n"); }
			}
		}
		for (int k = 0; k < nt; k++) {
			cfg c = Q[h]; int r = feed(&c, terms[k]); trans++;
			if (r == 1 || r == 2) {
				errs++;
				if (errs <= 20) { int w[MAXD * 4]; int n = witness(h, w); w[n++] = terms[k]; fprintf(out, "{\"t\":\"lalr_error\",\"kind\":\"%s\",\"terminal\":\"%s\",\"path\":", r == 1 ? "syntax-error" : "premature-accept", yyTokenName[terms[k]]); print_path(out, w, n); fprintf(out, "}\n"); }
				continue;
			}
			if (r == 3) { overflow++; continue; }
			if (c.n > maxd) maxd = c.n;
			if (find_or_add(&c, h, terms[k]) == -2) { fprintf(out, "{\"t\":\"internal\",\"what\":\"more than %d configurations\"}\n", MAXC); return 3; }
		}
	}
	fprintf(out, "{\"t\":\"lalr\",\"configs\":%d,\"transitions\":%ld,\"syntax_errors\":%ld,\"eof_errors\":%ld,\"overflows\":%ld,\"maxdepth\":%d,\"terminals\":%d,\"states\":%d,\"rules\":%d}\n",
	        nq, trans, errs, eoferr, overflow, maxd, nt, YYNSTATE, YYNRULE);
	/* samples */
	for (int s = 0; s < 5 && nq > 1; s++) { int c = 1 + (int)((long)(nq - 2) * s / 4); int w[MAXD * 4]; int n = witness(c, w); fprintf(out, "{\"t\":\"sample\",\"config\":%d,\"depth\":%d,\"witness\":", c, Q[c].n); print_path(out, w, n); fprintf(out, "}\n"); }
	if (do_conform && !errs && !eoferr && !feed_pseudo) {
		long traces = 0, bad = 0, steps = 0;
		for (int h = 0; h < nq; h++) {
			int w[MAXD * 4 + 2]; int n = witness(h, w); char why[256];
			if (n > 60) { fprintf(out, "{\"t\":\"internal\",\"what\":\"witness longer than 60\"}\n"); return 3; }
			/* witness + EOF */
			if (h > 0) {
				int rc = conform(w, n, 1, why, sizeof why); traces++; steps += n + 1;
				if (rc) { bad++; if (bad <= 20) { fprintf(out, "{\"t\":\"conformance\",\"rc\":%d,\"why\":\"%s\",\"path\":", rc, why); print_path(out, w, n); fprintf(out, "}\n"); } }
			}
			/* witness + each terminal */
			for (int k = 0; k < nt; k++) {
				w[n] = terms[k];
				int rc = conform(w, n + 1, 0, why, sizeof why); traces++; steps += n + 1;
				if (rc) { bad++; if (bad <= 20) { fprintf(out, "{\"t\":\"conformance\",\"rc\":%d,\"why\":\"%s\",\"path\":", rc, why); print_path(out, w, n + 1); fprintf(out, "}\n"); } }
			}
		}
		fprintf(out, "{\"t\":\"conform\",\"traces\":%ld,\"steps\":%ld,\"mismatches\":%ld}\n", traces, steps, bad);
	}
	fflush(out); dup2(real_err, 2);
	return 0;
}
