/* C17 free-running ThreadSanitizer pass (pool disabled): T threads stream different documents x formats x extension sets
   concurrently, each with its own engine.  Not the deciding step of C17 - it covers accesses the scheduler does not model.
   Reports go to stderr (halt_on_error=0); the Python side extracts one signature per racing global / function. */
#include "space.h"
#include <pthread.h>
static k_alpha *A_lines, *A_macro, *A_inline;
static const unsigned long XS[3] = { EXT_DEFAULT | EXT_OBFUSCATE, EXT_COMPAT_SET, EXT_DEFAULT | EXT_RANDOM_FOOT | EXT_CRITIC_ACCEPT };
static const short FM[9] = { FORMAT_HTML, FORMAT_LATEX, FORMAT_BEAMER, FORMAT_MEMOIR, FORMAT_FODT, FORMAT_OPML, FORMAT_ITMZ, FORMAT_EPUB, FORMAT_ODT };
static int NTHREADS = 4; static long per_thread[16]; static uint64_t hashes[16];
static pthread_barrier_t bar;
static void convert(const unsigned char *s, size_t n, int t) {
	char *doc = malloc(n + 1); memcpy(doc, s, n); doc[n] = 0;
	for (int f = 0; f < 9; f++) for (int x = 0; x < 3; x++) {
		if (f == 0 && x == 2) {      /* the text-level CriticMarkup passes and the metadata queries, once per document */
			DString *c = d_string_new(doc); mmd_critic_markup_accept(c); hashes[t] = k_fnv(c->str, c->currentStringLength, hashes[t]); d_string_free(c, true);
			c = d_string_new(doc); mmd_critic_markup_reject(c); hashes[t] = k_fnv(c->str, c->currentStringLength, hashes[t]); d_string_free(c, true);
			char *ks = mmd_string_metadata_keys(doc); if (ks) free(ks);
			char *v = mmd_string_metavalue_for_key(doc, "title"); if (v) free(v);
		}
		DString *d = mmd_string_convert_to_data(doc, XS[x], FM[f], 0, NULL);
		if (d) { hashes[t] = k_fnv(d->str, d->currentStringLength > 64 ? 64 : d->currentStringLength, hashes[t]); d_string_free(d, true); }
		per_thread[t]++;
	}
	free(doc);
}
/* two kitchen sinks that differ in every value: every construct with attributes, labels, notes, tables, metadata */
static const char *SINK[2] = {
	"Title: SA\nAuthor: One\nBase Header Level: 2\n\n{{TOC}}\n\n# Alpha [la]\n\n\"qa\" text[^a] [#ca] [?ga] [>aa] [Alpha][] ![ia](a.png width=10px height=3cm) `ca` $ma$ {++xa++} a--b <m@n.o> `ra`{=latex} `rh`{=html}\n\n| ta | tb |\n|:--|--:|\n| 1 | 2 |\n[Cap A][ta]\n\nterm a\n: def a\n\n```c\ncode a\n```\n\n[^a]: note a\n[#ca]: Cite A\n[?ga]: gloss a\n[>aa]: Abbr A\n",
	"Title: SB\nLanguage: fr\nHTML Header Level: 3\n\n# Beta\n\nBeta two\n--------\n\n'qb' words[^b][^c] [#cb][] [?gb] ![ib][rb] <x@y.z> ``cb`` \\\\(mb\\\\) {--xb--} c...d `rb`{=epub|html} `rc`{=odt|latex}\n\n| u |\n|:-:|\n| 3 |\n\n> quote b\n\n1. one\n2. two\n\n[rb]: b.png height=20% width=44 \"Tb\"\n[^b]: note b\n[^c]: note c\n[#cb]: Cite B\n[?gb]: gloss b\n" };
static void *body(void *arg) {
	int t = (int)(intptr_t)arg; pthread_barrier_wait(&bar);
	for (int r = 0; r < 12; r++) convert((const unsigned char *)SINK[(t + r) & 1], strlen(SINK[(t + r) & 1]), t);
	for (int i = t; i < A_lines->n; i += NTHREADS) convert(A_lines->f[i].s, A_lines->f[i].n, t);
	for (int i = t; i < A_macro->n; i += NTHREADS) if (A_macro->f[i].n < 2000) convert(A_macro->f[i].s, A_macro->f[i].n, t);
	for (int i = t; i < A_inline->n; i += NTHREADS) { unsigned char b[256]; size_t n = 0; memcpy(b, "a ", 2); n = 2; memcpy(b + n, A_inline->f[i].s, A_inline->f[i].n); n += A_inline->f[i].n; memcpy(b + n, " <x@y.z> b[^f]\n\n[^f]: n\n", 24); n += 24; convert(b, n, t); }
	return NULL;
}
int main(int argc, char **argv) {
	if (argc > 1) NTHREADS = atoi(argv[1]);
	A_lines = k_alpha_load("lines"); A_macro = k_alpha_load("macro"); A_inline = k_alpha_load("inline");
	pthread_t th[16]; pthread_barrier_init(&bar, NULL, NTHREADS);
	for (int i = 0; i < NTHREADS; i++) pthread_create(&th[i], NULL, body, (void *)(intptr_t)i);
	long tot = 0; for (int i = 0; i < NTHREADS; i++) { pthread_join(th[i], NULL); tot += per_thread[i]; }
	printf("{\"t\":\"tsan\",\"threads\":%d,\"conversions\":%ld}\n", NTHREADS, tot);
	return 0;
}
