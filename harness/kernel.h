/* Harness kernel: alphabets, odometer enumeration, crash-locating shard supervisor,
   process interposers (exit/time), stderr capture, outcome bitmap, JSONL records. */
#ifndef VP_KERNEL_H
#define VP_KERNEL_H
#define _GNU_SOURCE
#include <stdint.h>
#include <stdio.h>
#include <stdlib.h>
#include <string.h>
#include <setjmp.h>

typedef struct { unsigned char *s; size_t n; } k_frag;
typedef struct { k_frag *f; int n; } k_alpha;

k_alpha *k_alpha_load(const char *name);          /* $VERIF_DIR/alphabets/<name>.txt */
k_alpha *k_alpha_sub(const k_alpha *a, int first, int count);

/* sequences of length minlen..maxlen over n symbols, shortest first, lexicographic */
uint64_t k_seq_count(int n, int minlen, int maxlen);
int k_seq_decode(uint64_t idx, int n, int minlen, int maxlen, int *out);

typedef void (*k_case_fn)(uint64_t idx);
typedef void (*k_desc_fn)(uint64_t idx, FILE *out);   /* JSON members, comma separated, no braces */
typedef struct {
	const char *name; uint64_t ncases; k_case_fn run; k_desc_fn desc;
	const char *tiers;        /* "q", "t" or "qt" */
	const char *what;         /* human description of the space */
} k_level;

int k_main(int argc, char **argv, k_level *levels, int nlevels);

/* inside a case */
void k_violation(const char *sig, const char *fmt, ...);   /* oracle failure for the current case */
void k_outcome(uint64_t h);                               /* observable outcome hash -> distinct bitmap */
void k_note(const char *key, long v);                      /* per-level counters summed over workers (<=16 keys) */

/* exit() interposer: K_TRY(body) runs body; k_exited is 1 if the code called exit() */
extern jmp_buf k_jb; extern volatile int k_in_case, k_exited, k_exit_status;
#define K_TRY(body) do { k_exited = 0; k_in_case = 1; if (!setjmp(k_jb)) { body; } else { k_exited = 1; } k_in_case = 0; } while (0)

/* stderr of the current case (worker fd 2 is a memfd truncated at each case start) */
size_t k_stderr_len(void);
size_t k_stderr_read(char *buf, size_t max);

/* helpers */
uint64_t k_fnv(const void *p, size_t n, uint64_t h);
#define K_FNV0 1469598103934665603ULL
int k_utf8_valid(const unsigned char *s, size_t n, size_t *bad_at);
void k_json_bytes(FILE *o, const char *key, const void *p, size_t n);  /* "key":"latin-1 escaped" */
const char *k_verif_dir(void);
extern int k_replaying;           /* 1 in --replay mode (drivers may print extra detail) */
#endif
