"""ctypes binding to the library built from /repo's current tree (+ harness/shim.c)."""
import ctypes, os
from ctypes import c_char_p, c_int, c_ulong, c_size_t, c_void_p, c_long, POINTER, byref
from vp import build

FORMATS = dict(html=0, epub=1, latex=2, beamer=3, memoir=4, fodt=5, odt=6, textbundle=7, bundlezip=8, opml=9, itmz=10, mmd=11, htmlassets=12)
EXT = dict(COMPATIBILITY=1, COMPLETE=2, SNIPPET=4, SMART=8, NOTES=16, NO_LABELS=32, PROCESS_HTML=64, NO_METADATA=128, OBFUSCATE=256,
           CRITIC=512, CRITIC_ACCEPT=1024, CRITIC_REJECT=2048, RANDOM_FOOT=4096, TRANSCLUDE=8192, PARSE_OPML=1 << 14, PARSE_ITMZ=1 << 15, RANDOM_LABELS=1 << 16)
EXT_DEFAULT = EXT["SMART"] | EXT["NOTES"] | EXT["CRITIC"] | EXT["TRANSCLUDE"]
EXT_COMPAT = EXT["COMPATIBILITY"] | EXT["NO_LABELS"] | EXT["OBFUSCATE"] | EXT["NO_METADATA"]

_lib = None

_so = {}
def so_path(variant="plain"):
    """built once per process (and inherited by forked workers): the parent calls this before fanning out"""
    if variant not in _so:
        _so[variant] = build.link(variant, "libmmdv", ["kernel.c", "shim.c"], "-Wl,--wrap=exit -Wl,--wrap=time", shared=True)
    return _so[variant]

def lib(variant="plain"):
    global _lib
    if _lib is None:
        L = ctypes.CDLL(so_path(variant))
        L.vp_convert.restype = c_void_p; L.vp_convert.argtypes = [c_char_p, c_ulong, c_int, c_int, c_int]
        L.vp_convert_to_data.restype = c_void_p; L.vp_convert_to_data.argtypes = [c_char_p, c_size_t, c_ulong, c_int, c_int, c_char_p, c_int, POINTER(c_size_t)]
        L.vp_convert_to_file.restype = None; L.vp_convert_to_file.argtypes = [c_char_p, c_ulong, c_int, c_int, c_char_p, c_char_p, c_int]
        L.vp_meta.restype = c_void_p; L.vp_meta.argtypes = [c_char_p, c_int, c_char_p, c_char_p, c_int]
        L.vp_meta_engine_history.restype = c_void_p; L.vp_meta_engine_history.argtypes = [c_char_p, c_char_p]
        L.vp_meta_engine_requery.restype = c_void_p; L.vp_meta_engine_requery.argtypes = [c_char_p]
        L.vp_critic.restype = c_void_p; L.vp_critic.argtypes = [c_char_p, c_int, c_size_t, c_size_t, c_int]
        L.vp_transclude.restype = c_void_p; L.vp_transclude.argtypes = [c_char_p, c_char_p, c_char_p, c_int, POINTER(c_void_p)]
        L.vp_manifest.restype = c_void_p; L.vp_manifest.argtypes = [c_char_p, c_char_p, c_char_p]
        L.vp_opml_to_text.restype = c_void_p; L.vp_opml_to_text.argtypes = [c_char_p]
        L.vp_free.argtypes = [c_void_p]; L.vp_free.restype = None
        L.vp_stderr_mark.restype = c_long
        L.vp_stderr_since.restype = c_long; L.vp_stderr_since.argtypes = [c_long, c_char_p, c_long]
        L.vp_init.restype = None
        L.vp_rng_fresh.restype = None
        L.vp_pool.argtypes = [c_int]; L.vp_pool.restype = None
        L.vp_raw_convert.restype = c_void_p; L.vp_raw_convert.argtypes = [c_char_p, c_ulong, c_int, c_int]
        L.vp_raw_to_data.restype = c_void_p; L.vp_raw_to_data.argtypes = [c_char_p, c_size_t, c_ulong, c_int, c_int, c_char_p, POINTER(c_size_t)]
        L.vp_engine_new.restype = c_void_p; L.vp_engine_new.argtypes = [c_char_p, c_ulong]
        L.vp_engine_convert.restype = c_void_p; L.vp_engine_convert.argtypes = [c_void_p, c_int]
        L.vp_engine_parse_export.restype = c_void_p; L.vp_engine_parse_export.argtypes = [c_void_p, c_int]
        L.vp_engine_query.restype = c_void_p; L.vp_engine_query.argtypes = [c_void_p]
        L.vp_engine_source.restype = c_char_p; L.vp_engine_source.argtypes = [c_void_p]
        L.vp_engine_free.argtypes = [c_void_p]; L.vp_engine_free.restype = None
        L.vp_engine_set_language.restype = None; L.vp_engine_set_language.argtypes = [c_void_p, c_int]
        L.vp_engine_parse_range.restype = None; L.vp_engine_parse_range.argtypes = [c_void_p, c_ulong, c_ulong]
        L.vp_engine_parse.restype = None; L.vp_engine_parse.argtypes = [c_void_p]
        L.vp_engine_new_d.restype = c_void_p; L.vp_engine_new_d.argtypes = [c_char_p, c_ulong]
        L.vp_engine_set_text.restype = None; L.vp_engine_set_text.argtypes = [c_void_p, c_char_p]
        L.vp_engine_state.restype = ctypes.c_uint64; L.vp_engine_state.argtypes = [c_void_p]
        L.vp_global_state.restype = ctypes.c_uint64
        _lib = L
    return _lib

class Exited(Exception):
    pass

def _take(p, n=None):
    if not p:
        return None
    b = ctypes.string_at(p) if n is None else ctypes.string_at(p, n)
    lib().vp_free(p)
    return b

def init_worker():
    """redirect this process's fd 2 to a memfd so that stderr output of the library can be measured"""
    lib().vp_init()

def stderr_mark():
    return lib().vp_stderr_mark()

def stderr_since(mark):
    buf = ctypes.create_string_buffer(2048)
    lib().vp_stderr_since(mark, buf, 2048)
    return buf.value

def convert(src, ext=EXT_DEFAULT, fmt=0, lang=0, fam=0):
    L = lib()
    p = L.vp_convert(src, ext, fmt, lang, fam)
    if ctypes.c_int.in_dll(L, "vp_exited").value:
        raise Exited()
    return _take(p)

def convert_to_data(src, ext=EXT_DEFAULT, fmt=0, lang=0, directory=None, fam=0):
    L = lib(); n = c_size_t(0)
    p = L.vp_convert_to_data(src, len(src), ext, fmt, lang, directory, fam, byref(n))
    if ctypes.c_int.in_dll(L, "vp_exited").value:
        raise Exited()
    return _take(p, n.value)

def convert_to_file(src, path, ext=EXT_DEFAULT, fmt=0, lang=0, directory=None, fam=0):
    lib().vp_convert_to_file(src, ext, fmt, lang, directory, path, fam)

def meta(src, op, key=b"", val=b"", fam=0):
    return _take(lib().vp_meta(src, op, key, val, fam))

def meta_engine_history(src, ops):
    """returns (final text, [same-engine read-back after each update], same-engine key listing)"""
    enc = b"\x1e".join(k + b"\x1f" + v for k, v in ops)
    r = _take(lib().vp_meta_engine_history(src, enc))
    text, ans, keys = r.split(b"\x1d")
    return text, [None if a == b"\x01" else a for a in ans.split(b"\x1e")[:-1]], [k for k in keys.split(b"\n") if k]

def meta_engine_requery(src):
    a, b = _take(lib().vp_meta_engine_requery(src)).split(b"\x1d")
    return [k for k in a.split(b"\n") if k], [k for k in b.split(b"\n") if k]

def critic(src, reject=False, start=None, length=None):
    if start is None:
        return _take(lib().vp_critic(src, 1 if reject else 0, 0, 0, 0))
    return _take(lib().vp_critic(src, 1 if reject else 0, start, length, 1))

def transclude(src, search_path, source_path, fmt=0):
    m = c_void_p()
    out = _take(lib().vp_transclude(src, search_path, source_path, fmt, byref(m)))
    man = _take(m.value)
    return out, (man or b"").decode(errors="replace").splitlines()

def manifest(src, search_path, source_path, fam=0):
    L = lib(); L.vp_manifest_fam.restype = c_void_p; L.vp_manifest_fam.argtypes = [c_char_p, c_char_p, c_char_p, c_int]
    return (_take(L.vp_manifest_fam(src, search_path, source_path, fam)) or b"").decode(errors="replace").splitlines()

def opml_to_text(src):
    return _take(lib().vp_opml_to_text(src))

def rng_fresh():
    lib().vp_rng_fresh()
