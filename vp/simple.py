"""Boilerplate for checks that are one kernel-based C driver run under one or more build variants."""
import os
from vp import build, core

class DriverCheck:
    def __init__(self, pid, name, sources, variants, level="exploration", ld="-Wl,--wrap=exit -Wl,--wrap=time", rule="", assumptions=(), hang=30):
        self.pid, self.name, self.sources, self.variants, self.level, self.ld = pid, name, sources, variants, level, ld
        self.rule, self.assumptions, self.hang = rule, list(assumptions), hang
    def exes(self):
        return {os.path.basename(p): p for p in (build.link(v, self.name, ["kernel.c"] + self.sources, self.ld) for v in self.variants)}
    def prepare(self):
        self.exes()
    def run(self, tier, post=None):
        rep = core.Report(self.pid, tier, self.level)
        rep.rule, rep.assumptions = self.rule, self.assumptions
        ex = self.exes()
        for v in self.variants:
            core.run_driver(rep, ex["%s-%s" % (self.name, v)], tier, v, hang=self.hang if tier == "quick" else self.hang * 4)
        core.confirm_violations(rep, ex)
        if post: post(rep)
        return rep.finish()
    def replay(self, rec):
        ex = self.exes(); rp = rec["replay"]
        sigs, out, err = core.replay_driver(ex[rp["exe"]], rp["arg"])
        print(out); print(err); print("replayed signatures:", sigs)
        return 1 if sigs else 0
