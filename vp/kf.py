"""Maintains known_findings.json.  Usage:
   python3 vp/kf.py fixed <property> <commit> <signature> <what...>
   python3 vp/kf.py known <property> <signature> <what...>   (example JSON on stdin, optional)"""
import json, sys, os
P = os.path.join(os.path.dirname(os.path.dirname(os.path.abspath(__file__))), "known_findings.json")
def main():
    d = json.load(open(P))
    kind = sys.argv[1]
    if kind == "fixed":
        prop, commit, sig = sys.argv[2:5]; what = " ".join(sys.argv[5:])
        e = dict(property=prop, status="fixed", commit=commit, signature=sig, what=what,
                 line="fixed: property=%s %s %s" % (prop, commit, what))
    else:
        prop, sig = sys.argv[2:4]; what = " ".join(sys.argv[4:])
        e = dict(property=prop, status="known", signature=sig, what=what)
        if not sys.stdin.isatty():
            t = sys.stdin.read().strip()
            if t: e["example"] = json.loads(t)
    d["findings"] = [x for x in d["findings"] if not (x["property"] == e["property"] and x["signature"] == e["signature"])] + [e]
    json.dump(d, open(P, "w"), indent=1)
if __name__ == "__main__":
    main()
