"""Regenerates seeded/RESULTS.md and the detection table of DESIGN.md (section 10.3) from seeded/*/meta.json.
   A seed's meta.json may carry a 'strengthening' note (what the miss led to); default: caught as the check stood."""
import json, glob, os
V = os.path.dirname(os.path.dirname(os.path.abspath(__file__)))
def main():
    rows, drows, n, missed = [], [], 0, 0
    for d in sorted(glob.glob(os.path.join(V, "seeded", "C*", ""))):
        name = d.rstrip("/").split("/")[-1]
        m = json.load(open(d + "meta.json")); det = {p: v for p, v in m.get("detection", {}).items() if v.get("rc") == 1}; n += 1
        sigs = []
        for p, v in det.items():
            for l in v["violations"][:2]:
                sigs.append("%s: `%s`" % (p, l.split("signature=")[1].split(" ")[0] if "signature=" in l else "?"))
        note = m.get("strengthening", "caught by the check as it stood")
        if note.startswith("initially missed"): missed += 1
        rows.append("| %s | %s | %s | %s | %s |" % (name, m["summary"].replace("|", "/"), str(m.get("needs_to_manifest", "")).replace("|", "/").replace("\n", " ")[:260], "<br>".join(sigs[:2]), note))
        drows.append("| %s | %s | %s quick | %s |" % (name, m["summary"].replace("|", "/")[:200], "+".join(det.keys()), note))
    head = ("# Seeded property-breaking changes\n\nEach change was written by an independent sub-agent that saw only the property text and a scratch worktree (later-round agents, suffix `b`/`c`, were "
            "additionally told in one sentence what the earlier change for that property was, so as to produce a different kind), and was confirmed here (`python3 vp/seed.py verify seeded/<id>`): the patch applies, "
            "the tree builds, the repository's 345 tests pass, the agent's demonstration fails with the change and passes without it.  Detection (`python3 vp/seed.py detect seeded/<id> quick`) applies the patch to /repo, "
            "runs the property's quick check and undoes the patch.\n\n| id | change | needs to manifest | reported as (quick tier) | note |\n|---|---|---|---|---|\n")
    open(os.path.join(V, "seeded", "RESULTS.md"), "w").write(head + "\n".join(rows) + "\n")
    p = os.path.join(V, "DESIGN.md"); s = open(p).read()
    i = s.index("### 10.3 Detection results (seeded changes)"); j = s.index("### 10.4 ") if "### 10.4 " in s else s.index("## Appendix — algorithm sketches")
    body = ("### 10.3 Detection results (seeded changes)\n\nAll %d seeded changes kept under `seeded/` are reported by the quick tier of their property's check (full table with signatures: `seeded/RESULTS.md`; "
            "regenerate with `python3 vp/seedreport.py`).  %d of them were missed by the checks as they stood when the change arrived and led to the strengthening noted below - several times the strengthening "
            "itself then found a genuine defect on the unchanged tree; the checks were re-run on the unchanged tree afterwards and stay silent there.\n\n| id | seeded change (one line) | caught by | strengthening it caused |\n|---|---|---|---|\n"
            % (n, missed)) + "\n".join(drows) + "\n\n"
    open(p, "w").write(s[:i] + body + s[j:])
    print("seeds: %d, initially missed: %d" % (n, missed))
if __name__ == "__main__":
    main()
