"""Runs a stand-alone E2 (history BFS) C driver that prints JSONL on stdout and folds it into a Report."""
import json, subprocess, time
from vp import core

def run_bfs(rep, exe, args, label, what, timeout=7200):
    t = time.time()
    r = subprocess.run([exe] + [str(a) for a in args], capture_output=True, env=core.driver_env(), timeout=timeout)
    err = r.stderr.decode(errors="replace")
    recs = []
    for ln in r.stdout.decode(errors="replace").splitlines():
        try: recs.append(json.loads(ln))
        except ValueError: pass
    if r.returncode not in (0,) and not any(x.get("t") in ("internal", "crash") for x in recs):
        rep.internal_errors.append("%s exited %d: %s" % (exe, r.returncode, err[-400:]))
    bfs = None
    for x in recs:
        t_ = x.get("t")
        if t_ == "internal": rep.internal_errors.append(x["what"])
        elif t_ == "bfs":
            if bfs is None: bfs = x
            else:
                for k in ("states", "transitions", "unjudged", "violations"): bfs[k] = bfs.get(k, 0) + x.get(k, 0)
                bfs["complete"] = bfs.get("complete", True) and x.get("complete", True)
                bfs["states_by_depth"] = [a + b for a, b in zip(bfs.get("states_by_depth", []), x.get("states_by_depth", []))]
        elif t_ == "sweep":
            rep.add_level("length-sweep", x["cases"], x["cases"], True, 0.0, x["cases"], "every payload length 0..%d through every inserting operation (append, append_c_array, append_printf x2, prepend, insert, insert_c_array, insert_printf) on strings of 0, 1, 1022, 1023, 1024 bytes, one operation per fresh string, compared with the model" % x["max_payload"])
        elif t_ == "sample": rep.add_sample({k: v for k, v in x.items() if k != "t"})
        elif t_ == "viol":
            case = {k: v for k, v in x.items() if k not in ("t", "sig", "detail")}
            rep.add_violation(x["sig"], x.get("detail", ""), case, replay=dict(kind="bfs", exe=exe.split("/")[-1], args=list(args)))
        elif t_ == "crash":
            sig = core.sanitizer_signature(err, x.get("how", ""))
            case = {k: v for k, v in x.items() if k != "t"}
            rep.add_violation(sig, x.get("how", "") + " :: " + err[:1500], case, replay=dict(kind="bfs", exe=exe.split("/")[-1], args=list(args)))
    if bfs:
        rep.states = (rep.states or 0) + bfs["states"]
        rep.transitions = (rep.transitions or 0) + bfs["transitions"]
        rep.traces = (rep.traces or 0) + bfs["transitions"]
        rep.add_level(label, bfs["transitions"], bfs["transitions"], bfs.get("complete", True), time.time() - t, bfs["states"], what,
                      **{k: v for k, v in bfs.items() if k not in ("t", "states", "transitions", "complete")})
    else:
        rep.add_level(label, 1, 0, False, time.time() - t, 0, what + " (search did not finish)")
    return bfs
