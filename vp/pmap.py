"""Exhaustive parallel map over case indices 0..n-1 with crash attribution (E5 grids, Python oracles).
case_fn(idx) -> None | (outcome_hash, [ (signature, detail, case_dict), ... ])"""
import os, sys, time, mmap, struct, pickle, signal, hashlib

def h64(b):
    return int.from_bytes(hashlib.blake2b(b, digest_size=8).digest(), "little")

def pmap(n, case_fn, init_fn=None, workers=None, deadline_s=None, hang_s=60, describe=None):
    workers = min(workers or os.cpu_count() or 8, max(1, n))
    shm = mmap.mmap(-1, 16 * workers)      # per worker: current idx (q), start time (d)
    t0 = time.time()
    res = dict(done=0, distinct=set(), viol=[], crashes=[], complete=True, counters={})
    def spawn(w, start):
        r, wfd = os.pipe()
        pid = os.fork()
        if pid == 0:
            os.close(r)
            try:
                if init_fn: init_fn()
                done, seen, viol, per_sig, counters, complete = 0, set(), [], {}, {}, True
                i = start
                while i < n:
                    if deadline_s and (done & 63) == 0 and time.time() - t0 > deadline_s:
                        complete = False; break
                    struct.pack_into("qd", shm, 16 * w, i, time.time())
                    out = case_fn(i)
                    done += 1
                    if out is not None:
                        hsh, vs = out[0], out[1]
                        if len(out) > 2 and out[2]:
                            for k, v in out[2].items(): counters[k] = counters.get(k, 0) + v
                        if hsh is not None: seen.add(hsh)
                        for sig, det, case in vs:
                            c = per_sig.get(sig, 0); per_sig[sig] = c + 1
                            if c < 3: viol.append((sig, det, case, i))
                    i += workers
                struct.pack_into("qd", shm, 16 * w, -1, 0.0)
                data = pickle.dumps(dict(done=done, seen=seen, viol=viol, per_sig=per_sig, complete=complete, counters=counters))
                os.write(wfd, struct.pack("q", len(data)))
                off = 0
                while off < len(data): off += os.write(wfd, data[off:off + 65536])
            except BaseException as e:
                import traceback
                msg = pickle.dumps(dict(error=traceback.format_exc()))
                try:
                    os.write(wfd, struct.pack("q", len(msg))); os.write(wfd, msg)
                except OSError: pass
            os._exit(0)
        os.close(wfd)
        return pid, r
    live = {}
    for w in range(workers):
        live[w] = spawn(w, w)
    per_sig_total = {}
    bufs = {w: b"" for w in range(workers)}
    import select
    while live:
        fds = {r: w for w, (pid, r) in live.items()}
        rl, _, _ = select.select(list(fds), [], [], 0.2)
        for r in rl:
            w = fds[r]
            chunk = os.read(r, 1 << 20)
            if chunk:
                bufs[w] += chunk; continue
            # EOF: worker finished or died
            pid, _ = live.pop(w); os.close(r)
            _, st = os.waitpid(pid, 0)
            data = bufs[w]; bufs[w] = b""
            ok = False
            if len(data) >= 8:
                ln = struct.unpack("q", data[:8])[0]
                if len(data) - 8 >= ln:
                    d = pickle.loads(data[8:8 + ln]); ok = True
                    if "error" in d:
                        res["crashes"].append(dict(idx=-1, how="python exception", detail=d["error"]))
                    else:
                        res["done"] += d["done"]; res["distinct"] |= d["seen"]; res["complete"] &= d["complete"]
                        for k, v in d["counters"].items(): res["counters"][k] = res["counters"].get(k, 0) + v
                        for k, v in d["per_sig"].items(): per_sig_total[k] = per_sig_total.get(k, 0) + v
                        res["viol"].extend(d["viol"])
            if not ok:
                idx, _t = struct.unpack_from("qd", shm, 16 * w)
                how = "signal %d" % os.WTERMSIG(st) if os.WIFSIGNALED(st) else "exit %d" % os.WEXITSTATUS(st)
                res["crashes"].append(dict(idx=idx, how=how, detail=describe(idx) if describe and idx >= 0 else None))
                res["done"] += 1   # results of this worker before the crash are lost; restart after the failing case
                res["complete"] = False
                if idx >= 0 and idx + workers < n and len(res["crashes"]) < 50:
                    live[w] = spawn(w, idx + workers)
        # hang watchdog
        now = time.time()
        for w, (pid, r) in list(live.items()):
            idx, st_t = struct.unpack_from("qd", shm, 16 * w)
            if idx >= 0 and st_t and now - st_t > hang_s:
                try: os.kill(pid, signal.SIGKILL)
                except OSError: pass
    res["per_sig"] = per_sig_total
    res["wall"] = time.time() - t0
    return res

def fold(rep, name, n, res, what, replay_kind=None):
    """fold a pmap result into a Report"""
    for sig, det, case, idx in res["viol"]:
        rep.add_violation(sig, det, case, count=0, replay=dict(kind=replay_kind or "py", level=name, idx=idx))
    for sig, cnt in res["per_sig"].items():
        if sig in rep.viol: rep.viol[sig]["count"] += cnt
    for c in res["crashes"]:
        sig = "crash:%s" % c["how"].replace(" ", "")
        rep.add_violation(sig, "worker died (%s) at case %s: %s" % (c["how"], c["idx"], str(c.get("detail"))[:800]), dict(idx=c["idx"], case=c.get("detail")),
                          replay=dict(kind=replay_kind or "py", level=name, idx=c["idx"]))
    rep.add_level(name, n, res["done"], res["complete"] and res["done"] >= n, res["wall"], len(res["distinct"]), what, **{"n_" + k: v for k, v in res["counters"].items()})
