"""Inventory of the library's process-global writable state, re-derived from the objects built from the current tree."""
import os, re, subprocess, ctypes
from vp import build, mmd

def repo_writable_symbols(variant="plain"):
    """{name: object file} for symbols in .data/.bss of the repository's own objects (harness objects excluded)"""
    objs = build.build_objects(variant)
    srcs = set(build.repo_sources())
    out = {}
    for o in objs:
        base = os.path.basename(o).rsplit(".", 2)[0]
        if base not in srcs: continue
        r = subprocess.run(["nm", "-S", o], capture_output=True, text=True).stdout
        for ln in r.splitlines():
            p = ln.split()
            if len(p) == 4 and p[2] in "bBdDC":
                out[p[3]] = base
    return out

def regions(variant="plain"):
    """[(address, size, name, object)] of those symbols in the loaded shared library"""
    names = repo_writable_symbols(variant)
    so = mmd.so_path(variant); L = mmd.lib(variant)
    r = subprocess.run(["nm", "-S", so], capture_output=True, text=True).stdout
    syms = {}
    for ln in r.splitlines():
        p = ln.split()
        if len(p) == 4: syms.setdefault(p[3], []).append((int(p[0], 16), int(p[1], 16), p[2]))
    base = ctypes.cast(L.vp_init, ctypes.c_void_p).value - syms["vp_init"][0][0]
    out = []
    for n, obj in sorted(names.items()):
        for off, size, typ in syms.get(n, []):
            if typ in "bBdD": out.append((base + off, size, n, obj))
    return out

def hasher(variant="plain"):
    regs = regions(variant)
    arr = (ctypes.c_uint64 * (2 * len(regs)))()
    for i, (a, s, _, _) in enumerate(regs): arr[2 * i] = a; arr[2 * i + 1] = s
    L = mmd.lib(variant); L.vp_hash_regions.restype = ctypes.c_uint64; L.vp_hash_regions.argtypes = [ctypes.c_void_p, ctypes.c_int]
    return (lambda: L.vp_hash_regions(arr, len(regs))), regs
