"""Seeded property-breaking changes.
   python3 vp/seed.py verify <seeded dir>           confirm: applies, builds, suite passes, demo fails with / passes without
   python3 vp/seed.py detect <seeded dir> [tier] [props...]   apply to /repo, run the check(s), undo, record what was reported"""
import json, os, subprocess, sys, shutil, tempfile, time
VERIF = os.path.dirname(os.path.dirname(os.path.abspath(__file__)))

def sh(cmd, **kw): return subprocess.run(cmd, shell=isinstance(cmd, str), capture_output=True, text=True, errors="replace", **kw)

def build(root):
    r = sh("cmake -S %s -B %s/_b -G Ninja -DCMAKE_BUILD_TYPE=RelWithDebInfo -DCMAKE_C_FLAGS=-Wno-error >/dev/null 2>&1 && cmake --build %s/_b 2>&1 | tail -3" % (root, root, root))
    return os.path.exists(os.path.join(root, "_b", "multimarkdown")), r.stdout[-400:]

def verify(d):
    d = os.path.abspath(d); meta = json.load(open(os.path.join(d, "meta.json")))
    demo = os.path.join(d, "demo.sh")
    out = dict(at=time.strftime("%Y-%m-%d %H:%M"))
    for label, with_patch in (("clean", False), ("patched", True)):
        wt = tempfile.mkdtemp(prefix="mmd6-seed-", dir="/var/tmp"); os.rmdir(wt)
        try:
            r = sh(["git", "-C", "/repo", "worktree", "add", "-q", "--detach", wt, "HEAD"])
            if r.returncode: out[label] = "worktree failed: " + r.stderr; continue
            if with_patch:
                r = sh(["git", "-C", wt, "apply", os.path.join(d, "patch.diff")])
                out["applies"] = r.returncode == 0
                if r.returncode: out["apply_error"] = r.stderr[-300:]; continue
            ok, log = build(wt); out[label + "_builds"] = ok
            if not ok: out[label + "_build_log"] = log; continue
            if with_patch:
                env = dict(os.environ, VERIF_REPO=wt)
                r = sh([os.path.join(VERIF, "bin", "baseline_off")], env=env)
                out["suite_passes_with_patch"] = "BASELINE OK" in r.stdout
                if "BASELINE OK" not in r.stdout: out["suite_log"] = r.stdout[-600:]
            r = sh(["bash", demo, wt], cwd=d, timeout=900)
            out["demo_rc_" + label] = r.returncode
            if label == "patched": out["demo_tail_patched"] = (r.stdout + r.stderr)[-300:]
        finally:
            sh(["git", "-C", "/repo", "worktree", "remove", "--force", wt]); shutil.rmtree(wt, ignore_errors=True)
    out["confirmed"] = bool(out.get("applies") and out.get("patched_builds") and out.get("suite_passes_with_patch") and out.get("demo_rc_clean") == 0 and out.get("demo_rc_patched", 0) != 0)
    meta["verification"] = out
    json.dump(meta, open(os.path.join(d, "meta.json"), "w"), indent=1)
    print(json.dumps(out, indent=1)); return out["confirmed"]

def detect(d, tier="quick", props=None):
    d = os.path.abspath(d); meta = json.load(open(os.path.join(d, "meta.json")))
    props = props or [meta["property"]]
    st = sh(["git", "-C", "/repo", "status", "--porcelain", "--untracked-files=no"]).stdout.strip()
    if st: print("refusing: /repo has local changes:\n" + st); return False
    r = sh(["git", "-C", "/repo", "apply", os.path.join(d, "patch.diff")])
    if r.returncode: print("patch does not apply to /repo: " + r.stderr); return False
    res = {}
    try:
        for p in props:
            t = time.time()
            r = sh([os.path.join(VERIF, "bin", "check"), p, "--tier", tier], cwd=VERIF, env=dict(os.environ, VERIF_DEADLINE_S=os.environ.get("VERIF_DEADLINE_S", "900")))
            viol = [l for l in r.stdout.splitlines() if l.startswith("VIOLATION")]
            res[p] = dict(tier=tier, rc=r.returncode, wall_s=round(time.time() - t, 1), violations=[v[:400] for v in viol][:6], internal=[l for l in r.stdout.splitlines() if l.startswith("INTERNAL")][:3],
                          build_error=(r.stdout + r.stderr)[-300:] if r.returncode not in (0, 1) else None)
            print(p, tier, "rc", r.returncode, "violations", len(viol)); [print("   ", v[:260]) for v in viol[:4]]
    finally:
        sh(["git", "-C", "/repo", "checkout", "--", "."])
        # evidence files were rewritten by runs on a changed tree: restore the committed ones
        sh(["git", "-C", VERIF, "checkout", "--", "evidence"])
    meta.setdefault("detection", {}).update(res)
    json.dump(meta, open(os.path.join(d, "meta.json"), "w"), indent=1)
    return any(v["rc"] == 1 and v["violations"] for v in res.values())

if __name__ == "__main__":
    cmd = sys.argv[1]
    if cmd == "verify": sys.exit(0 if verify(sys.argv[2]) else 1)
    if cmd == "detect": sys.exit(0 if detect(sys.argv[2], sys.argv[3] if len(sys.argv) > 3 else "quick", sys.argv[4:] or None) else 1)
