"""Regenerates MANIFEST.json from the per-check metadata (META dict in each checks/cXX.py)."""
import json, os, sys, importlib, subprocess
VERIF = os.path.dirname(os.path.dirname(os.path.abspath(__file__)))
sys.path.insert(0, VERIF)

def main():
    checks, na = [], []
    props = [json.loads(l) for l in open(os.path.join(VERIF, "properties.jsonl"))]
    for p in props:
        pid = p["id"]
        path = os.path.join(VERIF, "checks", pid.lower() + ".py")
        meta = None
        if os.path.exists(path):
            m = importlib.import_module("checks." + pid.lower())
            meta = getattr(m, "META", None)
        if not meta:
            na.append(dict(property_id=pid, reason="check not built yet (work in progress; see DESIGN.md section 5 for the plan)"))
            continue
        checks.append(dict(
            property_id=pid,
            quick_cmd="bin/check %s --tier quick" % pid,
            thorough_cmd="bin/check %s --tier thorough" % pid,
            evidence_file="evidence/%s.json" % pid,
            replay_cmd_template="bin/check %s --replay {path}" % pid,
            engine=meta.get("engine", "E1"),
            level_claimed=dict(category=meta["level"], text=meta["text"], design_ref=meta.get("design_ref", "DESIGN.md section 5, " + pid)),
            level_note=meta["note"],
            technique=meta["technique"],
        ))
    try:
        commits = subprocess.run(["git", "-C", "/repo", "log", "--format=%h %s", "--grep=^hook:"], capture_output=True, text=True).stdout.strip().splitlines()
    except Exception:
        commits = []
    man = dict(
        version=1,
        setup_cmd="bin/setup",
        hooks=dict(guard="MMD6_VERIF",
                   enable="every variant built by vp/build.py compiles /repo/src/*.c with -DMMD6_VERIF; no source hook was needed so far (link-time interposition with -Wl,--wrap and harness TUs that include repo sources), so the define currently guards nothing",
                   baseline_off_cmd="bin/baseline_off", source_commits=commits, add_only=True),
        engines=[
            dict(name="E1", path="harness/kernel.c", serves_properties=["C01", "C02", "C08", "C15", "C16"], kind_free_text="exhaustive sequence enumeration over fragment alphabets with crash-locating shard supervisor"),
            dict(name="E2", path="vp/bfs.py", serves_properties=["C05", "C11", "C18", "C19"], kind_free_text="breadth-first search over operation histories on the real objects with canonical-state deduplication"),
            dict(name="E3", path="harness/c02_lalr.c", serves_properties=["C02"], kind_free_text="complete reachability over LALR stack configurations from the repository's own parser tables + conformance replay against the real Parse()"),
            dict(name="E4", path="harness/c17_sched.c", serves_properties=["C17"], kind_free_text="preemption-bounded schedule enumeration of real pthreads at accesses to process-global state"),
            dict(name="E5", path="vp/pmap.py", serves_properties=["C03", "C04", "C06", "C07", "C09", "C10", "C12", "C13", "C14", "C20"], kind_free_text="exhaustive grid / abstract-document enumeration in Python over the library loaded with ctypes"),
        ],
        checks=checks, not_applicable=na,
        notes="bin/check <id> --tier quick|thorough; known findings in known_findings.json; replay files under replay/<id>/ (git-ignored, written on violation).",
    )
    json.dump(man, open(os.path.join(VERIF, "MANIFEST.json"), "w"), indent=1)
    print("MANIFEST.json: %d checks, %d not yet claimed" % (len(checks), len(na)))

if __name__ == "__main__":
    main()
