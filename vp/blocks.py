"""Self-contained blocks (each ends in a blank line, none refers to another) shared by C03 and C20."""
BLOCKS = [
    b"plain paragraph\n\n",
    b"two line\nparagraph\n\n",
    b"*emph* and **strong** text\n\n",
    b"_emph_ and __strong__ text\n\n",
    b"a `code <span>` here\n\n",
    b"an [inline](http://example.com/ \"T\") link\n\n",
    b"auto <http://example.com/a?b=1&c=2> link\n\n",
    b"image ![alt](i.png \"T\") inline\n\n",
    b"escapes \\* \\_ \\# and &amp; &copy; 4 < 5 & 6\n\n",
    b"hard  \nbreak\n\n",
    b"# ATX one\n\n",
    b"## ATX two ##\n\n",
    b"### ATX three\n\n",
    b"###### ATX six\n\n",
    b"Setext one\n==========\n\n",
    b"Setext two\n----------\n\n",
    b"* * *\n\n",
    b"---\n\n",
    b"_ _ _\n\n",
    b"```\nfenced <code> & more\n```\n\n",
    b"    indented <code> & more\n\n",
    b"> quoted paragraph\n\n",
    b"> # quoted heading\n\n",
    b"> quoted *emph* `code`\n> second line\n\n",
    b"* tight one\n* tight two\n\n",
    b"1. first\n2. second\n\n",
    b"* loose one\n\n* loose two\n\n",
    # MultiMarkdown-only blocks (27..): tables (aligned, ragged), definition list, fence with language, display math, block HTML
    b"| a | b | c |\n|--:|:-:|:--|\n| d | e | f |\n\n",
    b"| g | h | i |\n|:-:|\n| j | k | l |\n\n",
    b"| m | n |\n|---|---|\n| o |\n\n",
    b"term\n: definition text\n\n",
    b"```c\nint x = 1 < 2;\n```\n\n",
    b"\\\\[ x^2 < y \\\\]\n\n",
    b"<div>\nraw *block*\n</div>\n\n",
]
# blocks that exist only in MultiMarkdown mode
MMD_ONLY = {19, 27, 28, 29, 30, 31, 32}
INDENTED = {20}
LISTS = {24, 25, 26}
TABLES = {27, 28, 29}      # a blank line between two tables starts a new section of ONE table
DEFLISTS = {30}            # adjacent definition lists are one list; an indented block after one continues the definition
def is_heading(i): return 10 <= i <= 15
