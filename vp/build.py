"""Builds of /repo's *current working tree* into /verif/build/<variant>/, cached by content.

The object cache key is sha256(preprocessed translation unit + compiler + flags), so
a check after an edit recompiles exactly the files whose (transitively included)
content changed.  mtime is never consulted.
"""
import hashlib, os, re, subprocess, sys, shlex
from concurrent.futures import ThreadPoolExecutor

VERIF = os.path.dirname(os.path.dirname(os.path.abspath(__file__)))
REPO = os.environ.get("VERIF_REPO", "/repo")
BUILD = os.path.join(VERIF, "build")
GUARD = "MMD6_VERIF"

SAN = "-fsanitize=address,undefined -fno-sanitize-recover=all -fno-omit-frame-pointer"
VARIANTS = {
    # name: (cc, flags)
    "plain":        ("gcc",   "-O1 -g -fPIC"),
    "plain-nopool": ("gcc",   "-O1 -g -fPIC -DDISABLE_OBJECT_POOL"),
    "asan":         ("clang", "-O1 -g " + SAN),
    "asan-nopool":  ("clang", "-O1 -g -DDISABLE_OBJECT_POOL " + SAN),
    "plain-nopool-instr": ("gcc", "-O1 -g -fPIC -DDISABLE_OBJECT_POOL -finstrument-functions -finstrument-functions-exclude-file-list=harness,/usr/"),
    "tsan-nopool":  ("clang", "-O1 -g -fsanitize=thread -DDISABLE_OBJECT_POOL"),
    "cov":          ("clang", "-O1 -g -fno-builtin -fsanitize-coverage=trace-pc-guard"),
}
# parser.c is compiled *without* NDEBUG in every variant: its %syntax_error action then
# reports on stderr (in the shipped -DNDEBUG build a syntax error silently drops a line);
# no trace is produced because ParseTrace is never called.
NO_NDEBUG = {"parser.c"}
# vendored miniz: deliberate x86 unaligned loads
PER_FILE = {"miniz.c": "-fno-sanitize=alignment,nonnull-attribute"}


def sh(cmd, **kw):
    return subprocess.run(cmd, shell=isinstance(cmd, str), **kw)


def repo_sources():
    txt = open(os.path.join(REPO, "CMakeLists.txt"), encoding="utf-8", errors="replace").read()
    m = re.search(r"set\(src_files(.*?)\n\)", txt, re.S)
    files = re.findall(r"src/([\w\-]+\.c)", m.group(1))
    assert len(files) > 20, "could not read src_files from CMakeLists.txt"
    return files


def gen_version_h(dirpath):
    """version.h as CMake's configure_file would produce it (fields the sources use)."""
    txt = open(os.path.join(REPO, "CMakeLists.txt"), encoding="utf-8", errors="replace").read()
    def var(n, d="0"):
        m = re.search(r"set\s*\(\s*My_Project_%s\s+\"?([^\")]*)\"?\s*\)" % n, txt)
        return m.group(1) if m else d
    ver = "%s.%s.%s" % (var("Version_Major"), var("Version_Minor"), var("Version_Patch"))
    cp = "Copyright © %s %s." % (var("Copyright_Date"), var("Author"))
    try:
        lic = open(os.path.join(REPO, "LICENSE"), encoding="utf-8", errors="replace").read()
    except OSError:
        lic = ""
    lic = lic.replace("\\", "\\\\").replace("\n", "\n\t").replace('"', '\\"').replace("\n", '\\n"\\\n"')
    out = ("#ifndef FILE_LIBMULTIMARKDOWN_H\n#define FILE_LIBMULTIMARKDOWN_H\n"
           "#define LIBMULTIMARKDOWN_NAME \"MultiMarkdown\"\n"
           "#define LIBMULTIMARKDOWN_VERSION \"%s\"\n#define LIBMULTIMARKDOWN_COPYRIGHT \"%s\"\n"
           "#define LIBMULTIMARKDOWN_LICENSE \"\\t%s\"\n#endif\n" % (ver, cp, lic))
    p = os.path.join(dirpath, "version.h")
    if not os.path.exists(p) or open(p).read() != out:
        open(p, "w").write(out)
    return p


def gen_toknames_h(dirpath):
    """toknames.h: token type number -> name, from the current libMultiMarkdown.h / parser.h (for stable signatures)."""
    txt = open(os.path.join(REPO, "src", "libMultiMarkdown.h"), encoding="utf-8", errors="replace").read()
    m = re.search(r"enum token_types \{(.*?)\};", txt, re.S)
    body = re.sub(r"//[^\n]*", "", m.group(1))
    names, val = {}, -1
    for ent in body.split(","):
        ent = ent.strip()
        if not ent:
            continue
        mm = re.match(r"(\w+)\s*(?:=\s*(\d+))?$", ent)
        if not mm:
            continue
        val = int(mm.group(2)) if mm.group(2) else val + 1
        names[val] = mm.group(1)
    for mm in re.finditer(r"#define\s+(LINE_\w+)\s+(\d+)", open(os.path.join(REPO, "src", "parser.h")).read()):
        names.setdefault(int(mm.group(2)), mm.group(1))
    out = "static const char *vp_tokname(int t) {\n\tswitch (t) {\n" + "".join(
        '\t\tcase %d: return "%s";\n' % (k, v) for k, v in sorted(names.items())) + '\t\tdefault: return "?";\n\t}\n}\n'
    p = os.path.join(dirpath, "toknames.h")
    if not os.path.exists(p) or open(p).read() != out:
        open(p, "w").write(out)


def _compile_one(cc, flags, src, objdir, extra_inc):
    base = os.path.basename(src)
    fl = flags
    if base not in NO_NDEBUG or not src.startswith(REPO):
        fl += " -DNDEBUG"
    if base in PER_FILE and "-fsanitize=address" in fl:
        fl += " " + PER_FILE[base]
    cmd = "%s %s -D%s -I%s/src %s -w" % (cc, fl, GUARD, REPO, " ".join("-I" + i for i in extra_inc))
    pre = sh(cmd + " -E " + shlex.quote(src), capture_output=True)
    if pre.returncode != 0:
        sys.stderr.write(pre.stderr.decode(errors="replace"))
        print("BUILD ERROR: preprocessing %s failed" % src); raise SystemExit(3)
    # strip line markers so that unrelated line shifts in headers do not matter less than content
    key = hashlib.sha256(cmd.encode() + b"\0" + pre.stdout).hexdigest()[:24]
    obj = os.path.join(objdir, "%s.%s.o" % (base, key))
    if not os.path.exists(obj):
        tmp = obj + ".tmp%d" % os.getpid()
        r = sh(cmd + " -c %s -o %s" % (shlex.quote(src), shlex.quote(tmp)), capture_output=True)
        if r.returncode != 0:
            sys.stderr.write(r.stderr.decode(errors="replace"))
            print("BUILD ERROR: compiling %s failed" % src); raise SystemExit(3)
        os.replace(tmp, obj)
    return obj


def build_objects(variant, extra_sources=(), with_main=False):
    """Compile repo library sources (+ harness sources) for a variant; returns object list."""
    cc, flags = VARIANTS[variant]
    objdir = os.path.join(BUILD, "obj", variant)
    os.makedirs(objdir, exist_ok=True)
    incdir = os.path.join(BUILD, "inc")
    os.makedirs(incdir, exist_ok=True)
    gen_version_h(incdir)
    gen_toknames_h(incdir)
    srcs = [os.path.join(REPO, "src", f) for f in repo_sources()]
    if with_main:
        srcs += [os.path.join(REPO, "src", "main.c"), os.path.join(REPO, "src", "argtable3.c")]
    srcs += list(extra_sources)
    inc = [incdir, os.path.join(VERIF, "harness")]
    with ThreadPoolExecutor(max_workers=os.cpu_count() or 4) as ex:
        objs = list(ex.map(lambda s: _compile_one(cc, flags, s, objdir, inc), srcs))
    # garbage-collect stale objects of the same basenames (keep disk bounded)
    keep = set(objs)
    byname = {}
    for f in os.listdir(objdir):
        if f.endswith(".o"):
            byname.setdefault(f.rsplit(".", 2)[0], []).append(os.path.join(objdir, f))
    for name, lst in byname.items():
        if len(lst) > 3:
            lst.sort(key=os.path.getmtime)
            for f in lst[:-3]:
                if f not in keep:
                    try: os.unlink(f)
                    except OSError: pass
    return objs


def link(variant, name, harness_sources, ldflags="", shared=False, with_main=False, exclude=()):
    """Link harness + repo objects into build/bin/<name>-<variant>[.so]."""
    cc, flags = VARIANTS[variant]
    hs = [os.path.join(VERIF, "harness", s) for s in harness_sources]
    objs = build_objects(variant, hs, with_main=with_main)
    if exclude:
        objs = [o for o in objs if os.path.basename(o).rsplit(".", 2)[0] not in exclude]
    bindir = os.path.join(BUILD, "bin")
    os.makedirs(bindir, exist_ok=True)
    out = os.path.join(bindir, "%s-%s%s" % (name, variant, ".so" if shared else ""))
    key = hashlib.sha256((" ".join(objs) + ldflags + flags).encode()).hexdigest()[:16]
    stamp = out + ".key"
    if os.path.exists(out) and os.path.exists(stamp) and open(stamp).read() == key:
        return out
    san = " ".join(f for f in flags.split() if f.startswith("-fsanitize") or f.startswith("-fno-sanitize"))
    cmd = "%s %s %s -o %s.tmp %s %s -lm -lpthread" % (
        cc, san, "-shared" if shared else "", shlex.quote(out), " ".join(map(shlex.quote, objs)), ldflags)
    r = sh(cmd, capture_output=True)
    if r.returncode != 0:
        sys.stderr.write(r.stderr.decode(errors="replace"))
        print("BUILD ERROR: linking %s failed" % out); raise SystemExit(3)
    os.replace(out + ".tmp", out)
    open(stamp, "w").write(key)
    return out


def build_cli():
    """Plain CLI (main.c + argtable3) from the current tree; guard define present but unused."""
    return link("plain", "multimarkdown", [], with_main=True)


if __name__ == "__main__":
    import time
    t = time.time()
    for v in (sys.argv[1:] or VARIANTS):
        build_objects(v)
        print("built", v, "%.1fs" % (time.time() - t))
