"""Reports: violation signatures, known findings, replay files, evidence, verdict lines."""
import json, os, re, sys, time, hashlib, subprocess

VERIF = os.path.dirname(os.path.dirname(os.path.abspath(__file__)))
REPO = os.environ.get("VERIF_REPO", "/repo")


def seed():
    try:
        return int(os.environ.get("VERIF_SEED", "0"))
    except ValueError:
        return 0


def deadline_s(tier):
    d = os.environ.get("VERIF_DEADLINE_S")
    if d:
        return float(d)
    return 600.0 if tier == "quick" else 3600.0


_num = re.compile(r"\d+")


def sanitizer_signature(text, how=""):
    """Line-number independent signature of the first sanitizer report in text."""
    if "hang" in how:
        return "hang"
    if not text:
        return "crash:%s" % (how or "unknown")
    def frame(after):
        for m in re.finditer(r"#\d+ 0x[0-9a-f]+ in (\S+) (\S+?):\d+", text[after:]):
            fn, path = m.group(1), m.group(2)
            if "/src/" in path and "harness" not in path:
                return "%s@%s" % (fn, os.path.basename(path))
        return None
    m = re.search(r"ERROR: (Address|Thread|Leak|Memory)Sanitizer: ([\w\-]+)", text)
    u = re.search(r"(\S+?):(\d+):(\d+): runtime error: ([^\n]*)", text)
    if u and (not m or u.start() < m.start()):
        msg = u.group(4)
        msg = re.sub(r"0x[0-9a-f]+", "P", msg)
        msg = _num.sub("N", msg)
        msg = re.sub(r"\s+", "-", msg.strip())[:70]
        fr = frame(u.start()) or ("?@" + os.path.basename(u.group(1)))
        return "ubsan:%s:%s" % (msg, fr)
    if m:
        kind = m.group(2)
        acc = re.search(r"\n(READ|WRITE) of size", text)
        fr = frame(m.start()) or "?"
        if m.group(1) == "Thread":
            return "tsan:%s:%s" % (kind, fr)
        return "asan:%s:%s:%s" % (kind, acc.group(1) if acc else "-", fr)
    if "hang" in how:
        return "hang"
    first = text.strip().splitlines()[0] if text.strip() else ""
    first = _num.sub("N", first)[:60]
    return "crash:%s:%s" % (how.replace(" ", ""), re.sub(r"\s+", "-", first))


def load_known():
    p = os.path.join(VERIF, "known_findings.json")
    if not os.path.exists(p):
        return []
    return json.load(open(p))["findings"]


class Report:
    def __init__(self, pid, tier, level, technique_note=""):
        self.pid, self.tier, self.level = pid, tier, level
        self.t0 = time.time()
        self.levels = []          # dicts: name, cases, done, exhaustive, wall, distinct, what
        self.viol = {}            # sig -> dict(count, detail, cases[list], replay)
        self.samples = []
        self.extra = {}
        self.assumptions = []
        self.rule = ""
        self.states = self.transitions = self.traces = None
        self.internal_errors = []

    # ---- accumulation
    def add_level(self, name, cases, done=None, exhaustive=True, wall=0.0, distinct=0, what="", **kw):
        d = dict(name=name, cases=cases, done=cases if done is None else done, exhaustive=bool(exhaustive),
                 wall_s=round(wall, 2), distinct=distinct, what=what)
        d.update(kw)
        self.levels.append(d)

    def add_violation(self, sig, detail, case, count=1, replay=None):
        v = self.viol.setdefault(sig, dict(count=0, detail=detail, cases=[], replay=replay))
        v["count"] += count
        if len(v["cases"]) < 3 and case is not None:
            v["cases"].append(case)
        if replay and not v.get("replay"):
            v["replay"] = replay

    def add_sample(self, s):
        if len(self.samples) < 12:
            self.samples.append(s)

    # ---- finish
    def finish(self):
        known = [k for k in load_known() if k.get("property") == self.pid and k.get("status") == "known"]
        lines, hit, bad = [], [], []
        os.makedirs(os.path.join(VERIF, "replay", self.pid), exist_ok=True)
        for sig, v in sorted(self.viol.items()):
            k = next((k for k in known if k["signature"] == sig), None)
            if k is not None:
                hit.append(dict(signature=sig, count=v["count"], what=k.get("what", "")))
                lines.append("KNOWN-FINDING: property=%s %s [%s] (%d cases)" % (self.pid, k.get("what", ""), sig, v["count"]))
                continue
            h = hashlib.sha1(sig.encode()).hexdigest()[:8]
            safe = re.sub(r"[^A-Za-z0-9_.@-]+", "_", sig)[:80]
            path = os.path.join(VERIF, "replay", self.pid, "%s-%s.json" % (safe, h))
            with open(path, "w") as f:
                json.dump(dict(property=self.pid, signature=sig, detail=v["detail"], count=v["count"],
                               cases=v["cases"], replay=v.get("replay"), tier=self.tier), f, indent=1, default=repr)
            bad.append((sig, path, v))
            lines.append("VIOLATION property=%s replay=%s signature=%s count=%d :: %s" % (
                self.pid, path, sig, v["count"], str(v["detail"])[:300].replace("\n", "\\n")))
        hit_sigs = {h["signature"] for h in hit}
        for k in known:
            if k["signature"] not in hit_sigs:
                lines.append("KNOWN-FINDING: property=%s %s [%s] (listed; not exercised by this run)" % (self.pid, k.get("what", ""), k["signature"]))
        evals = sum(l["done"] for l in self.levels)
        distinct = sum(l["distinct"] for l in self.levels)
        cov = dict(
            evaluations=int(evals), distinct_nontrivial=int(distinct), rule=self.rule,
            samples=self.samples[:12] or ["(none)"],
            exhaustive=bool(self.levels) and all(l["exhaustive"] for l in self.levels),
            levels=self.levels, known_findings_hit=hit,
            violations=[dict(signature=s, count=v["count"], replay=p) for s, p, v in bad],
        )
        if self.states is not None:
            cov["states"], cov["transitions"] = int(self.states), int(self.transitions)
            cov["traces_validated_against_impl"] = int(self.traces or 0)
        cov.update(self.extra)
        ev = dict(property_id=self.pid, tier=self.tier, seed=seed(), level=self.level, coverage=cov,
                  assumptions=self.assumptions, wall_s=round(time.time() - self.t0, 2), violations=len(bad))
        os.makedirs(os.path.join(VERIF, "evidence"), exist_ok=True)
        tmp = os.path.join(VERIF, "evidence", self.pid + ".json.tmp")
        with open(tmp, "w") as f:
            json.dump(ev, f, indent=1, default=repr)
        os.replace(tmp, os.path.join(VERIF, "evidence", self.pid + ".json"))
        for l in self.levels:
            print("level %-28s cases=%-10d done=%-10d exhaustive=%-5s distinct=%-8d %.1fs  %s" % (
                l["name"], l["cases"], l["done"], l["exhaustive"], l["distinct"], l["wall_s"], l.get("what", "")[:90]))
        for ln in lines:
            print(ln)
        if self.internal_errors:
            for e in self.internal_errors:
                print("INTERNAL-ERROR property=%s %s" % (self.pid, e))
            sys.stdout.flush()
            if not bad: return 3        # a confirmed violation outranks trouble elsewhere in the same run (e.g. a search that could not continue past it)
        print("RESULT property=%s tier=%s evaluations=%d distinct=%d violations=%d known=%d wall=%.1fs" % (
            self.pid, self.tier, evals, distinct, len(bad), len(hit), time.time() - self.t0))
        sys.stdout.flush()
        return 1 if bad else 0


# ---------------------------------------------------------------- C drivers

def driver_env():
    e = dict(os.environ)
    e["VERIF_DIR"] = VERIF
    e["ASAN_OPTIONS"] = "detect_leaks=0:abort_on_error=0:allocator_may_return_null=1:detect_stack_use_after_return=0:handle_segv=1:symbolize=1"
    e["UBSAN_OPTIONS"] = "print_stacktrace=1:halt_on_error=1"
    e["TSAN_OPTIONS"] = "halt_on_error=1:second_deadlock_stack=1"
    e["ASAN_SYMBOLIZER_PATH"] = "/usr/bin/llvm-symbolizer"
    return e


def run_driver(rep, exe, tier, variant_label, levels=None, hang=None, deadline=None, workers=None, extra_args=()):
    """Run a kernel-based C driver; fold its JSONL records into the report."""
    rundir = os.path.join(VERIF, "build", "run")
    os.makedirs(rundir, exist_ok=True)
    out = os.path.join(rundir, "%s-%s-%d.jsonl" % (rep.pid, variant_label, os.getpid()))
    if os.path.exists(out):
        os.unlink(out)
    remaining = (deadline if deadline is not None else deadline_s(rep.tier)) - (time.time() - rep.t0)
    cmd = [exe, "--out", out, "--tier", tier[0], "--deadline", "%.0f" % max(remaining, 5),
           "--workers", str(workers or os.cpu_count() or 8)]
    if hang:
        cmd += ["--hang", str(hang)]
    if levels:
        cmd += ["--levels", ",".join(levels)]
    cmd += list(extra_args)
    r = subprocess.run(cmd, env=driver_env(), capture_output=True)
    if r.returncode != 0:
        rep.internal_errors.append("driver %s exited %d: %s" % (exe, r.returncode, r.stderr.decode(errors="replace")[-500:]))
    recs = []
    if os.path.exists(out):
        for ln in open(out, encoding="utf-8", errors="replace"):
            try:
                recs.append(json.loads(ln))
            except ValueError:
                rep.internal_errors.append("bad record in %s" % out)
        os.unlink(out)
    sigcounts = {}
    for rec in recs:
        if rec["t"] == "sigcount":
            sigcounts[rec["sig"]] = sigcounts.get(rec["sig"], 0) + rec["n"]
    seen = {}
    for rec in recs:
        t = rec["t"]
        if t == "level":
            kw = {k: v for k, v in rec.items() if k.startswith("n_")}
            rep.add_level("%s/%s" % (variant_label, rec["name"]), rec["cases"], rec["done"], rec["exhaustive"],
                          rec["wall"], rec["distinct"], rec.get("what", ""), crashes=rec["crashes"], **kw)
        elif t == "sample":
            s = {k: v for k, v in rec.items() if k != "t"}
            s["variant"] = variant_label
            rep.add_sample(s)
        elif t in ("viol", "crash"):
            if t == "crash":
                sig = sanitizer_signature(rec.get("stderr", ""), rec.get("how", ""))
                detail = (rec.get("how", "") + " :: " + rec.get("stderr", "")[:1500])
                cnt = 1
            else:
                sig = rec["sig"]; detail = rec.get("detail", "")
                cnt = 0 if sig in seen else sigcounts.get(sig, 1)
                seen[sig] = 1
            case = {k: v for k, v in rec.items() if k not in ("t", "stderr", "detail", "sig")}
            case["variant"] = variant_label
            replay = dict(kind="driver", exe=os.path.basename(exe), arg="%s:%d" % (rec["level"], rec["idx"]))
            if cnt or t == "crash":
                rep.add_violation(sig, detail, case, count=cnt, replay=replay)
            else:
                rep.add_violation(sig, detail, case, count=0, replay=replay)
    return recs


def replay_driver(exe, arg, timeout=300):
    r = subprocess.run([exe, "--replay", arg], env=driver_env(), capture_output=True, timeout=timeout)
    err = r.stderr.decode(errors="replace")
    out = r.stdout.decode(errors="replace")
    sigs = []
    for ln in out.splitlines():
        try:
            d = json.loads(ln)
            if d.get("t") == "viol":
                sigs.append(d["sig"])
        except ValueError:
            pass
    if r.returncode not in (0, 1) or ("Sanitizer" in err or "runtime error" in err):
        how = "signal %d" % -r.returncode if r.returncode < 0 else "exit %d" % r.returncode
        m = re.search(r"^replay: .*killed by signal (\d+).*$", err, re.M)      # the driver replays in a forked child and reports how it died
        if m:
            how = "signal %s" % m.group(1); err = (err[:m.start()] + err[m.end():]).strip()
        sigs.append(sanitizer_signature(err, how))
    return sigs, out, err


def confirm_violations(rep, exes):
    """Determinism gate: replay the first recorded case of every new signature twice in fresh
    processes; a signature that does not reproduce identically is an internal error of the harness."""
    known = {k["signature"] for k in load_known() if k.get("property") == rep.pid and k.get("status") == "known"}
    for sig, v in rep.viol.items():
        rp = v.get("replay")
        if not rp or rp.get("kind") != "driver" or sig in known:
            continue
        exe = exes.get(rp["exe"])
        if not exe:
            continue
        try:
            a, _, _ = replay_driver(exe, rp["arg"])
            b, _, _ = replay_driver(exe, rp["arg"])
        except subprocess.TimeoutExpired:
            a = b = ["hang"]
        v["replayed"] = [a, b]
        if sig.startswith("hang"):
            continue
        if sig not in a or sig not in b:
            v["detail"] = "[not reproduced alone: replays gave %s / %s] %s" % (a, b, v["detail"])


# ---------------------------------------------------------------- shared reclassification (C01, C02, C07)
def self_referential(src):
    """a note definition whose own (lazily continued) text calls the same note at least twice"""
    for m in re.finditer(r"(?m)^\[([\^#?>])([^\]]+)\]:(.*(?:\n(?!\n).*)*)", src):
        call = "[%s%s]" % (m.group(1), m.group(2))
        if m.group(3).count(call) >= 2: return True
    return False
def reclassify_self_referential_notes(rep):
    """Failures whose input/stack identifies one known root cause get that root cause's own signature (so that the generic
    sanitizer signature stays free for anything else):
    * a self-referential note expanded inline by the LaTeX/OpenDocument writers (hang, stack overflow, or a NULL note further down);
    * a note/abbreviation inside a heading when the EPUB navigation document is built with a second scratch pad."""
    for sig in list(rep.viol):
        v = rep.viol[sig]
        if not v["cases"]: continue
        generic = sig == "hang" or sig.startswith("crash:signal") or sig.startswith("asan:stack-overflow") or "null-pointer-of-type-'footnote'" in sig
        if generic and all(self_referential(c.get("src", "")) and c.get("format") in ("latex", "beamer", "memoir", "fodt", "odt") for c in v["cases"]):
            new = "self-referential-note:inline-expansion-does-not-return"
        elif "null-pointer-of-type-'footnote'" in sig and "epub_export_nav_entry" in str(v["detail"]) and all(c.get("format") == "epub" for c in v["cases"]):
            new = "epub-nav:note-inside-heading:null-note"
        else:
            continue
        del rep.viol[sig]
        n = rep.viol.setdefault(new, dict(count=0, detail=v["detail"], cases=[], replay=v.get("replay")))
        n["count"] += v["count"]; n["cases"] = (n["cases"] + v["cases"])[:3]
